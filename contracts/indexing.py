"""Contracts for label indexing: FlodymArray.__getitem__ / __setitem__ / set_values / split and the
SubArrayHandler (C05, C06, C04, C13, C15).

Skeleton: rank of the array, per-dimension selector kind
    N none | I single item | S subset Dimension (other letter, arbitrary item order) | L list of items
and the key container (dict by letter / dict by name / bare item / tuple of items).
Positions of items, subset lengths and orders, all sizes and entries are symbolic.
The specification is phrased over *labels*: an entry is addressed iff its item in every selected
dimension is (one of) the selected item(s).
"""
from __future__ import annotations

import itertools

from fvc import core, speclib as SL
from fvc.harness import Outcome
from fvc.units import unit
from .dimensions import ALPHA, _rank
from .arrays import mk_dims

SUBLETTER = {"a": "p", "b": "q", "c": "r", "d": "s", "e": "t"}


def patterns(rank, kinds):
    return ["".join(p) for p in itertools.product(kinds, repeat=rank)]


class Key:
    """builds the key object and the label-level description of a selector pattern"""

    def __init__(self, W, D, x_letters, pattern, form="dict_letter", subset_ok=None, order=None):
        self.W = W
        self.order = order  # None: the key names the dimensions in the array's order; "reversed": the other way round
        self.sel = {}
        for l, k in zip(x_letters, pattern):
            d = D[l]
            if k == "N":
                continue
            if k == "I":
                item, pos = W.item_in(d, f"it_{l}")
                self.sel[l] = ("I", item, pos)
            elif k == "S":
                ok = True if subset_ok is None else subset_ok.get(l, True)
                sd = W.subset_dim(d, SUBLETTER[l], f"sub_{l}", subset=ok)
                self.sel[l] = ("S", sd, ok)
            elif k == "L":
                lst = W.item_list(d, f"lst_{l}")
                self.sel[l] = ("L", lst)
        self.D = D
        self.x_letters = x_letters
        self.form = form

    def key(self):
        if not self.sel:
            return Ellipsis
        named = list(self.sel.items())
        if self.order == "reversed":
            named = named[::-1]
        elif self.order == "rotated":
            named = named[1:] + named[:1]
        if self.form in ("dict_letter", "dict_name"):
            out = {}
            for l, s in named:
                k = l if self.form == "dict_letter" else self.D[l].name
                out[k] = s[1]
            return out
        items = []
        for l, s in named:
            assert s[0] == "I"
            items.append(s[1])
        if self.form == "bare":
            assert len(items) == 1
            return items[0]
        return tuple(items)

    # label-level semantics
    def out_letters(self):
        out = []
        for l in self.x_letters:
            s = self.sel.get(l)
            if s is None or s[0] == "L":
                out.append(l)
            elif s[0] == "S":
                out.append(s[1].letter)
        return tuple(out)

    def source_letter(self, out_letter):
        for l in self.x_letters:
            s = self.sel.get(l)
            if s is not None and s[0] == "S" and s[1].letter == out_letter:
                return l
        return out_letter

    def region_size(self, l):
        """length of the region along source letter l (only for kept letters)"""
        W = self.W
        s = self.sel.get(l)
        if s is None:
            return W.size_of(self.D[l])
        if s[0] == "S":
            return W.size_of(s[1])
        if s[0] == "L":
            return W.items_len(s[1])
        raise KeyError(l)

    def to_source(self, asg_out):
        """assignment of the *result/region* letters (position in subset / list for S, L) ->
        assignment of the source letters"""
        W = self.W
        src = {}
        for l in self.x_letters:
            s = self.sel.get(l)
            if s is None:
                src[l] = asg_out[l]
            elif s[0] == "I":
                src[l] = s[2]
            elif s[0] == "S":
                it = W.item_at(s[1].items, asg_out[s[1].letter])
                src[l] = W.index_in(self.D[l].items, it)[1]
            else:
                it = W.item_at(s[1], asg_out[l])
                src[l] = W.index_in(self.D[l].items, it)[1]
        return src

    def in_region(self, asg_src):
        """(addressed?, assignment of the region letters) for a source label assignment"""
        W = self.W
        conds = []
        reg = {}
        for l in self.x_letters:
            s = self.sel.get(l)
            if s is None:
                reg[l] = asg_src[l]
                continue
            it = W.item_at(self.D[l].items, asg_src[l])
            if s[0] == "I":
                conds.append(asg_src[l] == s[2])
            elif s[0] == "S":
                inn, j = W.index_in(s[1].items, it)
                conds.append(inn)
                reg[s[1].letter] = j
            else:
                inn, j = W.index_in(s[1], it)
                conds.append(inn)
                reg[l] = j
        if W.symbolic:
            return core.sand(*conds), reg
        return all(bool(c) for c in conds), reg


def dim_equal(a, b):
    if a is b:
        return True
    return a.letter == b.letter and a.name == b.name and (a.items is b.items or (not hasattr(a.items, "subset_of") and list(a.items) == list(b.items))) and a.dtype == b.dtype


def check_read_result(W, name, out, K: Key, X, x):
    W.prove(f"{name}.returns", out.kind == "return", detail=repr(out))
    if out.kind != "return":
        return
    r = out.value
    if not SL.check_wf(W, name, r, own_dims_from=[x]):
        return
    letters = tuple(d.letter for d in r.dims.dim_list)
    want = K.out_letters()
    ok = letters == want
    W.prove(f"{name}.letters", ok, detail=f"got {letters} want {want}")
    if not ok:
        return
    for d in r.dims.dim_list:
        src = K.source_letter(d.letter)
        s = K.sel.get(src)
        if s is not None and s[0] == "S":
            W.prove(f"{name}.dim[{d.letter}].is_the_subset_dimension", dim_equal(d, s[1]))
        else:
            W.prove(f"{name}.dim[{d.letter}].equals_source_dimension", dim_equal(d, K.D[src]))
    R = SL.lab(W, r)

    def pred(idx):
        asg = dict(zip(letters, idx))
        return W.num_eq(R.at(asg), X.at(K.to_source(asg)))

    W.forall(f"{name}.entries", [W.size_of(d) for d in r.dims.dim_list], pred, detail="entry = source entry carrying the selected labels, subset in requested item order")


# ----------------------------------------------------------------------------------------
# reads


def displaced_patterns(kinds):
    out = []
    for pat in patterns(4, "NI" + kinds):
        if sum(pat.count(c) for c in kinds) == 1 and "I" in pat and "N" in pat:
            out.append(pat)
    return out


def sk_reads(tier):
    out = []
    R = _rank(tier, 3, 4)
    for k in range(0, R + 1):
        for pat in patterns(k, "NIS"):
            forms = ["dict_letter"]
            if "S" not in pat and pat.count("I") >= 1:
                forms.append("tuple")
                if pat.count("I") == 1:
                    forms.append("bare")
            if tier == "thorough" or k <= 2:
                forms.append("dict_name")
            for f in forms:
                if set(pat) <= {"N"} and f != "dict_letter":
                    continue
                out.append({"x": ALPHA[:k], "pat": pat, "form": f})
                # the key names the selected dimensions in another order than the array stores them
                nsel = k - pat.count("N")
                if nsel >= 2 and f in ("dict_letter", "tuple"):
                    out.append({"x": ALPHA[:k], "pat": pat, "form": f, "order": "reversed"})
                    if nsel >= 3:
                        out.append({"x": ALPHA[:k], "pat": pat, "form": f, "order": "rotated"})
    if tier == "thorough":
        for pat in patterns(5, "NIS"):
            if pat.count("S") <= 2 and pat.count("I") <= 2 and pat.count("N") <= 2:
                out.append({"x": ALPHA[:5], "pat": pat, "form": "dict_letter"})
    else:
        # rank 4, one subset selector among single items and untouched dimensions: the smallest shape in
        # which numpy moves the advanced-index axes relative to an untouched dimension on both sides
        for pat in displaced_patterns("S"):
            out.append({"x": ALPHA[:4], "pat": pat, "form": "dict_letter"})
    return out


READ_TARGETS = [
    "flodym.flodym_arrays.FlodymArray.__getitem__",
    "flodym.flodym_arrays.FlodymArray._sub_array_handler",
    "flodym.flodym_arrays.SubArrayHandler.__init__",
    "flodym.flodym_arrays.SubArrayHandler._get_def_dict",
    "flodym.flodym_arrays.SubArrayHandler._get_key_single_item",
    "flodym.flodym_arrays.SubArrayHandler._to_dict_tuple",
    "flodym.flodym_arrays.SubArrayHandler._init_dims_out",
    "flodym.flodym_arrays.SubArrayHandler._init_ids",
    "flodym.flodym_arrays.SubArrayHandler._set_ids_single_dim",
    "flodym.flodym_arrays.SubArrayHandler._get_single_item_id",
    "flodym.flodym_arrays.SubArrayHandler._convert_lists_to_meshgrid",
    "flodym.flodym_arrays.SubArrayHandler.ids",
    "flodym.flodym_arrays.SubArrayHandler.values_pointer",
    "flodym.flodym_arrays.SubArrayHandler.dim_letters",
    "flodym.flodym_arrays.SubArrayHandler.to_flodym_array",
    "flodym.dimensions.Dimension.is_subset",
    "flodym.dimensions.DimensionSet.replace",
    "flodym.dimensions.DimensionSet.drop",
    "flodym.dimensions.DimensionSet.index",
]


@unit(
    "index.read",
    props=["C06", "C04", "C13", "C15"],
    targets=READ_TARGETS,
    skeletons=sk_reads,
    inlined=["flodym.flodym_arrays._is_iterable"],
    note="items of different dimensions may coincide (then a bare/tuple key is ambiguous and must raise); subset Dimensions carry a letter the array does not have",
)
def u_read(W, sk):
    D = mk_dims(W, sk["x"], numeric_ok=True)
    x = W.array("x", [D[l] for l in sk["x"]], int_ok=True)
    X = SL.lab(W, x)
    K = Key(W, D, sk["x"], sk["pat"], sk["form"], order=sk.get("order"))
    snaps = SL.snapshot(W, [x])
    key = K.key()
    out = W.call(lambda: x[key])
    if sk["form"] in ("bare", "tuple"):
        # the item of each selected dimension must not occur in another dimension of the array
        amb = []
        for l, s in K.sel.items():
            for l2 in sk["x"]:
                if l2 != l:
                    amb.append(W.index_in(D[l2].items, s[1])[0])
        ambiguous = core.sor(*amb) if W.symbolic else any(amb)
        if bool(ambiguous):
            SL.check_raises(W, "read(ambiguous item)", out, ValueError)
            SL.check_unchanged(W, "read", snaps)
            return
    check_read_result(W, "read", out, K, X, x)
    if out.kind == "return" and W.is_ndarray(getattr(out.value, "values", None)):
        W.prove("read.own.values_buffer", W.buffer_id(out.value.values) != W.buffer_id(x.values), kind="ownership", detail="slice result shares memory with the source array")
    SL.check_unchanged(W, "read", snaps)


@unit(
    "index.read_after_copy",
    props=["C06", "C15"],
    targets=["flodym.flodym_arrays.FlodymArray.__getitem__", "flodym.flodym_arrays.FlodymArray._sub_array_handler", "flodym.flodym_arrays.FlodymArray.copy", "flodym.flodym_arrays.FlodymArray.split"],
    skeletons=lambda tier: [{"x": ALPHA[:k], "pat": pat, "form": f} for k in (1, 2, 3) for pat in patterns(k, "NI") if "I" in pat and pat.count("I") <= 2 for f in (("dict_letter", "tuple", "bare") if pat.count("I") == 1 else ("dict_letter", "tuple"))],
    note="history: read x[key]; y = x.copy(); give y other values; read y[key] and x[key] again -- each read reports the entries of the array it was asked of (nothing remembered from an earlier read of another array)",
)
def u_read_after_copy(W, sk):
    D = mk_dims(W, sk["x"])
    dims = [D[l] for l in sk["x"]]
    x = W.array("x", dims)
    K = Key(W, D, sk["x"], sk["pat"], sk["form"])
    key = K.key()
    if sk["form"] in ("bare", "tuple"):
        amb = []
        for l, sel in K.sel.items():
            for l2 in sk["x"]:
                if l2 != l:
                    amb.append(W.index_in(D[l2].items, sel[1])[0])
        ambiguous = core.sor(*amb) if W.symbolic else any(amb)
        if bool(ambiguous):
            return  # (ambiguous bare items are refused: index.read)
    first = W.call(lambda: x[key])
    W.prove("first_read.returns", first.kind == "return", detail=repr(first))
    y = x.copy()
    new = W.ndarray("other", [W.size_of(d) for d in dims])
    W.call(lambda: y.__setitem__(Ellipsis, new))
    X, Y = SL.lab(W, x), SL.lab(W, y)
    check_read_result(W, "read_of_the_copy", W.call(lambda: y[key]), K, Y, y)
    check_read_result(W, "read_of_the_original_again", W.call(lambda: x[key]), K, X, x)



def sk_read_errors(tier):
    out = []
    for k in range(1, _rank(tier, 3, 4) + 1):
        for j in range(k):
            out.append({"x": ALPHA[:k], "j": j})
    return out


@unit(
    "index.read_errors",
    props=["C06", "C13"],
    targets=READ_TARGETS,
    skeletons=sk_read_errors,
    note="unknown item, slice key, Dimension that is not a subset, list selector on a read",
)
def u_read_errors(W, sk):
    D = mk_dims(W, sk["x"])
    x = W.array("x", [D[l] for l in sk["x"]])
    l = sk["x"][sk["j"]]
    snaps = SL.snapshot(W, [x])
    stranger = W.foreign_item("zz", [D[m] for m in sk["x"]])
    SL.check_raises(W, "read(unknown item, bare)", W.call(lambda: x[stranger]), ValueError)
    SL.check_raises(W, "read(unknown item, dict)", W.call(lambda: x[{l: stranger}]), ValueError)
    it, _ = W.item_in(D[l], "it")
    SL.check_raises(W, "read(unknown item in tuple)", W.call(lambda: x[(it, stranger)]), ValueError)
    SL.check_raises(W, "read(slice)", W.call(lambda: x[0:1]), ValueError)
    SL.check_raises(W, "read(slice(None))", W.call(lambda: x[:]), ValueError)
    bad = W.subset_dim(D[l], SUBLETTER[l], "bad", subset=False)
    out = W.call(lambda: x[{l: bad}])
    if W.symbolic:
        # the symbolic Dimension is arbitrary: the call must raise exactly when it is not a subset
        is_sub = bad.items.subset_of(D[l].items)
        if bool(is_sub):
            W.prove("read(arbitrary Dimension).returns_when_subset", out.kind == "return", detail=repr(out))
        else:
            SL.check_raises(W, "read(Dimension that is not a subset)", out, ValueError)
    else:
        SL.check_raises(W, "read(Dimension that is not a subset)", out, ValueError)
    lst = W.item_list(D[l], "lst")
    SL.check_raises(W, "read(list selector)", W.call(lambda: x[{l: lst}]), ValueError)
    SL.check_unchanged(W, "read_errors", snaps)


# ----------------------------------------------------------------------------------------
# writes


def sk_writes(tier):
    out = []
    R = _rank(tier, 3, 4)
    for k in range(0, R + 1):
        for pat in patterns(k, "NISL"):
            if tier == "quick" and k == 3 and pat.count("N") == 0 and len(set(pat)) == 1 and pat[0] != "I":
                continue
            forms = ["dict_letter"]
            if set(pat) <= {"N", "I"} and "I" in pat:
                forms.append("tuple")
            if set(pat) != {"N"} and (tier == "thorough" or k <= 2):
                forms.append("dict_name")  # the key names the dimensions instead of giving their letters
            for f in forms:
                for rhs in ("number", "array", "array_perm_extra", "array_missing"):
                    if f == "dict_name" and rhs not in ("number", "array"):
                        continue
                    if rhs == "array_missing" and all(c == "I" for c in pat):
                        continue
                    if rhs != "number" and "L" in pat:
                        continue  # list selector with a FlodymArray source: not claimed (see unit note)
                    if tier == "quick" and k == 3 and rhs in ("array_perm_extra",) and pat.count("N") == 3:
                        continue
                    out.append({"x": ALPHA[:k], "pat": pat, "form": f, "rhs": rhs})
                    if k - pat.count("N") >= 2 and f in ("dict_letter", "tuple") and rhs in ("number", "array"):
                        out.append({"x": ALPHA[:k], "pat": pat, "form": f, "rhs": rhs, "order": "reversed"})
    # history: the whole target was filled with a whole number (a Python int) before the keyed write of fractions
    for pat, rhs in (("I", "number"), ("IN", "number"), ("NS", "number"), ("LN", "number"), ("IN", "array"), ("NS", "array"), ("NN", "array")):
        out.append({"x": ALPHA[: len(pat)], "pat": pat, "form": "dict_letter", "rhs": rhs, "history": "filled_with_an_int"})
    # dimensions that share their *name* and differ by letter (origin / destination regions of a trade array): keys by letter
    for k in (2, 3):
        for pat in patterns(k, "NISL"):
            if set(pat) == {"N"} or (k == 3 and tier == "quick" and pat.count("N") != 2):
                continue
            out.append({"x": ALPHA[:k], "pat": pat, "form": "dict_letter", "rhs": "number", "names": "same"})
            if "L" not in pat:
                out.append({"x": ALPHA[:k], "pat": pat, "form": "dict_letter", "rhs": "array", "names": "same"})
    if tier == "quick":
        for pat in displaced_patterns("SL"):
            out.append({"x": ALPHA[:4], "pat": pat, "form": "dict_letter", "rhs": "number"})
            if "L" not in pat:
                out.append({"x": ALPHA[:4], "pat": pat, "form": "dict_letter", "rhs": "array"})
    return out


WRITE_TARGETS = ["flodym.flodym_arrays.FlodymArray.__setitem__", "flodym.flodym_arrays.FlodymArray.set_values", "flodym.flodym_arrays.FlodymArray.sum_values_to"] + READ_TARGETS[1:14]


def region_dims(W, K, D):
    """Dimension objects of the addressed region, in the target's order (S: the subset Dimension;
    L: a Dimension with the same letter whose items are the listed ones)"""
    out = []
    for l in K.x_letters:
        s = K.sel.get(l)
        if s is None:
            out.append(D[l])
        elif s[0] == "S":
            out.append(s[1])
        elif s[0] == "L":
            out.append(("L", l, s[1]))
    return out


@unit(
    "index.write",
    props=["C05", "C06", "C04", "C13", "C15"],
    targets=WRITE_TARGETS,
    skeletons=sk_writes,
    inlined=["flodym.flodym_arrays._is_iterable"],
    note="list selectors hold pairwise distinct items and are claimed for numbers on the right-hand side; a FlodymArray source for a list-selected dimension is matched by position in the list (its own items are ignored, a length-1 source is broadcast) -- the statement does not fix that case, so it is not claimed",
)
def u_write(W, sk):
    D = mk_dims(W, sk["x"], numeric_ok=True)
    if sk.get("names") == "same":
        D = {l: W.dim(l, name="Region", numeric_ok=True) for l in sk["x"]}
    x = W.array("x", [D[l] for l in sk["x"]])
    K = Key(W, D, sk["x"], sk["pat"], sk["form"], order=sk.get("order"))
    key = K.key()
    if sk.get("history") == "filled_with_an_int":
        h = W.call(lambda: x.__setitem__(Ellipsis, 2))
        W.prove("history.fill_with_int.returns", h.kind == "return", detail=repr(h))
        if h.kind != "return":
            return
    before = SL.lab_of_values(W, x.values.copy(), [D[l] for l in sk["x"]])
    dsnap = (x.dims, list(x.dims.dim_list), x.values)
    rdims = []
    for rd in region_dims(W, K, D):
        if isinstance(rd, tuple):
            _, l, lst = rd
            rdims.append(W.dim(l, name=D[l].name, tag=f"rhs_{l}"))
        else:
            rdims.append(rd)
    kind = sk["rhs"]
    expect_error = None
    if kind == "number":
        rhs = W.number("c")
        val = lambda reg: rhs
    else:
        dl = list(rdims)
        if kind == "array_perm_extra":
            dl = [W.dim("v")] + list(reversed(dl))
        elif kind == "array_missing":
            if not dl:
                return
            dl = dl[1:]
            expect_error = (KeyError, ValueError)
        rhs = W.array("y", dl)
        Y = SL.lab(W, rhs)
        M = SL.marg(Y, tuple(d.letter for d in rdims)) if expect_error is None else None
        val = lambda reg: M.at(reg)
    ysn = SL.snapshot(W, [rhs]) if kind != "number" else []

    def do():
        x[key] = rhs

    out = W.call(do)
    if sk["form"] in ("bare", "tuple"):
        amb = []
        for l, s in K.sel.items():
            for l2 in sk["x"]:
                if l2 != l:
                    amb.append(W.index_in(D[l2].items, s[1])[0])
        ambiguous = core.sor(*amb) if W.symbolic else any(amb)
        if bool(ambiguous):
            SL.check_raises(W, "write(ambiguous item)", out, ValueError)
            expect_error = ValueError
    # list-selected dimensions: the right-hand side's dimension must have as many items as the list
    size_ok = []
    for rd, d in zip(region_dims(W, K, D), rdims):
        if isinstance(rd, tuple) and kind in ("array", "array_perm_extra"):
            size_ok.append(W.size_eq(W.size_of(d), W.items_len(rd[2])))
    sizes_match = core.sand(*size_ok) if W.symbolic else all(size_ok)
    if expect_error is ValueError:
        changed = False
    elif expect_error is not None:
        SL.check_raises(W, "write(rhs lacks a region dimension)", out, expect_error)
        changed = False
    elif not bool(sizes_match):
        W.prove("write(list length mismatch).raises", out.kind == "raise", detail=repr(out))
        changed = False
    else:
        W.prove("write.returns", out.kind == "return", detail=repr(out))
        changed = out.kind == "return"
    # the target keeps its dimension set, shape and buffer
    W.prove("write.frame.dims_object", x.dims is dsnap[0], kind="frame")
    W.prove("write.frame.dim_list", len(x.dims.dim_list) == len(dsnap[1]) and all(a is b for a, b in zip(x.dims.dim_list, dsnap[1])), kind="frame")
    if not SL.check_wf(W, "write.target", x):
        return
    X = SL.lab(W, x)

    def pred(idx):
        asg = dict(zip(sk["x"], idx))
        if not changed:
            return W.num_eq(X.at(asg), before.at(asg))
        inn, reg = K.in_region(asg)
        if W.symbolic:
            return W.num_eq(X.at(asg), core.site(inn, val(reg), before.at(asg)))
        return W.num_eq(X.at(asg), val(reg) if inn else before.at(asg))

    W.forall("write.entries", [W.size_of(D[l]) for l in sk["x"]], pred, detail="addressed entries = source summed by label; all others unchanged")
    if ysn:
        SL.check_unchanged(W, "write.rhs", ysn)


def sk_assign_whole(tier):
    from .dimensions import operand_pairs

    return [{"x": x, "y": y} for x, y in operand_pairs(_rank(tier, 3, 4))] + [{"x": ALPHA[:k], "y": ALPHA[:k], "alias": True} for k in range(0, 4)]


@unit(
    "index.assign_whole_array",
    props=["C05", "C04", "C13", "C15"],
    targets=["flodym.flodym_arrays.FlodymArray.__setitem__", "flodym.flodym_arrays.FlodymArray.sum_values_to"],
    skeletons=sk_assign_whole,
    note="target[...] = FlodymArray for every overlap pattern and storage order of the source",
)
def u_assign_whole(W, sk):
    from .arrays import operands

    D, x, y = operands(W, sk)
    before = SL.lab_of_values(W, x.values.copy(), [D[l] for l in sk["x"]])
    dsnap = (x.dims, list(x.dims.dim_list))
    if sk.get("alias"):
        # x[...] = x : the array keeps its entries, dimensions and well-formedness
        def do_self():
            x[...] = x

        out = W.call(do_self)
        W.prove("assign_self.returns", out.kind == "return", detail=repr(out))
        W.prove("assign_self.frame.dims_object", x.dims is dsnap[0], kind="frame")
        if SL.check_wf(W, "assign_self.target", x):
            X = SL.lab(W, x)
            W.forall("assign_self.entries", [W.size_of(D[l]) for l in sk["x"]], lambda idx: W.num_eq(X.at(dict(zip(sk["x"], idx))), before.at(dict(zip(sk["x"], idx)))))
        return
    ysn = SL.snapshot(W, [y])
    Y = SL.lab(W, y)

    def do():
        x[...] = y

    out = W.call(do)
    missing = [l for l in sk["x"] if l not in sk["y"]]
    if missing:
        SL.check_raises(W, "assign(source lacks a target dimension)", out, (KeyError, ValueError))
    else:
        W.prove("assign.returns", out.kind == "return", detail=repr(out))
    W.prove("assign.frame.dims_object", x.dims is dsnap[0], kind="frame")
    W.prove("assign.frame.dim_list", len(x.dims.dim_list) == len(dsnap[1]) and all(a is b for a, b in zip(x.dims.dim_list, dsnap[1])), kind="frame")
    if not SL.check_wf(W, "assign.target", x):
        return
    X = SL.lab(W, x)
    M = SL.marg(Y, tuple(sk["x"])) if not missing else None

    def pred(idx):
        asg = dict(zip(sk["x"], idx))
        return W.num_eq(X.at(asg), before.at(asg) if missing else M.at(asg))

    W.forall("assign.entries", [W.size_of(D[l]) for l in sk["x"]], pred)
    if not missing and out.kind == "return":
        W.prove("assign.own.values_buffer", W.buffer_id(x.values) != W.buffer_id(y.values), kind="ownership")
    SL.check_unchanged(W, "assign.rhs", ysn)


def sk_ndarray(tier):
    out = []
    for k in range(0, _rank(tier, 3, 4) + 1):
        for via in ("setitem", "set_values"):
            for shape in ["same", "free"] + (["rank-1", "rank+1"] if True else []):
                if shape == "rank-1" and k == 0:
                    continue
                out.append({"x": ALPHA[:k], "via": via, "shape": shape})
        out.append({"x": ALPHA[:k], "via": "set_values", "shape": "flodym_array"})
    return out


@unit(
    "index.assign_ndarray",
    props=["C05", "C13", "C15"],
    targets=["flodym.flodym_arrays.FlodymArray.__setitem__", "flodym.flodym_arrays.FlodymArray.set_values", "flodym.flodym_arrays.FlodymArray._check_value_format"],
    skeletons=sk_ndarray,
    note="whole-array assignment of an ndarray: accepted iff its shape is exactly the target's; [...] copies; a refused call leaves the target as it was",
)
def u_assign_ndarray(W, sk):
    D = mk_dims(W, sk["x"])
    x = W.array("x", [D[l] for l in sk["x"]])
    k = len(sk["x"])
    before = SL.lab_of_values(W, x.values.copy(), [D[l] for l in sk["x"]])
    own = [W.size_of(D[l]) for l in sk["x"]]
    if sk["shape"] == "same":
        shape = list(own)
    elif sk["shape"] == "free":
        shape = [W.size_of(W.dim(l, tag=f"m_{l}")) for l in sk["x"]]
    elif sk["shape"] == "rank-1":
        shape = list(own[1:])
    elif sk["shape"] == "flodym_array":
        # set_values(<FlodymArray>) is refused whatever its dimensions; the refusal must not leave it in place
        other = W.array("v", [D[l] for l in sk["x"]])
        out = W.call(lambda: x.set_values(other))
        W.prove("set_values(FlodymArray).raises", out.kind == "raise" and isinstance(out.exc, Exception), detail=repr(out))
        if not SL.check_wf(W, "set_values(FlodymArray).target", x):
            return
        X = SL.lab(W, x)
        W.forall("set_values(FlodymArray).entries", own, lambda idx: W.num_eq(X.at(dict(zip(sk["x"], idx))), before.at(dict(zip(sk["x"], idx)))), detail="refused: target unchanged")
        return
    else:
        shape = list(own) + [W.size_of(W.dim("v"))]
    v = W.ndarray("v", shape)
    vfz = SL.lab_of_values(W, v.copy(), [D[l] for l in sk["x"]]) if len(shape) == k else None
    dsnap = (x.dims, list(x.dims.dim_list))

    def do():
        if sk["via"] == "setitem":
            x[...] = v
        else:
            x.set_values(v)

    out = W.call(do)
    if len(shape) != k:
        match = False
    else:
        conds = [W.size_eq(a, b) for a, b in zip(shape, own)]
        match = core.sand(*conds) if W.symbolic else all(conds)
    accepted = bool(match)
    if accepted:
        W.prove("assign_ndarray.returns", out.kind == "return", detail=repr(out))
    else:
        SL.check_raises(W, "assign_ndarray(wrong shape)", out, ValueError)
    W.prove("assign_ndarray.frame.dims_object", x.dims is dsnap[0], kind="frame")
    W.prove("assign_ndarray.frame.dim_list", len(x.dims.dim_list) == len(dsnap[1]) and all(a is b for a, b in zip(x.dims.dim_list, dsnap[1])), kind="frame")
    if not SL.check_wf(W, "assign_ndarray.target", x):
        return
    X = SL.lab(W, x)

    def pred(idx):
        asg = dict(zip(sk["x"], idx))
        return W.num_eq(X.at(asg), vfz.at(asg) if accepted else before.at(asg))

    W.forall("assign_ndarray.entries", own, pred, detail="accepted: entries of the ndarray; refused: target unchanged")
    if accepted and sk["via"] == "setitem":
        W.prove("assign_ndarray.copied", W.buffer_id(x.values) != W.buffer_id(v), kind="ownership", detail="an ndarray assigned through [] must be copied")


@unit(
    "index.write_errors",
    props=["C06", "C05", "C13"],
    targets=WRITE_TARGETS if False else ["flodym.flodym_arrays.FlodymArray.__setitem__", "flodym.flodym_arrays.SubArrayHandler._set_ids_single_dim", "flodym.flodym_arrays.SubArrayHandler._get_single_item_id"],
    skeletons=sk_read_errors,
    note="writes through keys that must be refused: an unknown single item (bare / dict / tuple), an unknown item inside a list of items (alone and next to known items), a Dimension that is not a subset, a numpy-style slice; the target is left exactly as it was",
)
def u_write_errors(W, sk):
    D = mk_dims(W, sk["x"])
    x = W.array("x", [D[l] for l in sk["x"]])
    l = sk["x"][sk["j"]]
    snaps = SL.snapshot(W, [x])
    stranger = W.foreign_item("zz", [D[m] for m in sk["x"]])
    known, _ = W.item_in(D[l], "it")
    c = W.number("c")

    def put(key):
        def do():
            x[key] = c

        return W.call(do)

    SL.check_raises(W, "write(unknown item, bare)", put(stranger), ValueError)
    SL.check_raises(W, "write(unknown item, dict)", put({l: stranger}), ValueError)
    SL.check_raises(W, "write(list with only an unknown item)", put({l: [stranger]}), ValueError)
    SL.check_raises(W, "write(list of a known and an unknown item)", put({l: [known, stranger]}), ValueError)
    SL.check_raises(W, "write(list of an unknown and a known item)", put({l: [stranger, known]}), ValueError)
    SL.check_raises(W, "write(slice)", put(slice(0, 1)), ValueError)
    bad = W.subset_dim(D[l], SUBLETTER[l], "bad", subset=False)
    out = put({l: bad})
    if W.symbolic:
        if not bool(bad.items.subset_of(D[l].items)):
            SL.check_raises(W, "write(Dimension that is not a subset)", out, ValueError)
    else:
        SL.check_raises(W, "write(Dimension that is not a subset)", out, ValueError)
        SL.check_unchanged(W, "write_errors", snaps)
        return
    SL.check_unchanged(W, "write_errors(refused keys)", snaps) if out.kind == "raise" else None


# ----------------------------------------------------------------------------------------
# must-fail guards


@unit(
    "index.mustfail_read_subset_in_parent_order",
    props=["C06"],
    targets=["flodym.flodym_arrays.FlodymArray.__getitem__"],
    skeletons=lambda tier: [{"x": "ab", "pat": "NS", "form": "dict_letter"}],
    expect="refuted",
)
def u_mustfail_read(W, sk):
    D = mk_dims(W, sk["x"])
    x = W.array("x", [D[l] for l in sk["x"]])
    X = SL.lab(W, x)
    K = Key(W, D, sk["x"], sk["pat"], sk["form"])
    out = W.call(lambda: x[K.key()])
    W.prove("mf.returns", out.kind == "return")
    if out.kind != "return":
        return
    r = out.value
    R = SL.lab(W, r)
    letters = tuple(d.letter for d in r.dims.dim_list)

    def pred(idx):
        asg = dict(zip(letters, idx))
        # wrong: j-th subset item read from position j of the parent (ignores the requested item order)
        return W.num_eq(R.at(asg), X.at({"a": asg["a"], "b": asg["q"]}))

    W.forall("mf.entries(wrong: positional)", [W.size_of(d) for d in r.dims.dim_list], pred)


@unit(
    "index.mustfail_write_overwrites_everything",
    props=["C05"],
    targets=["flodym.flodym_arrays.FlodymArray.__setitem__"],
    skeletons=lambda tier: [{"x": "ab", "pat": "IN", "form": "dict_letter"}],
    expect="refuted",
)
def u_mustfail_write(W, sk):
    D = mk_dims(W, sk["x"])
    x = W.array("x", [D[l] for l in sk["x"]])
    K = Key(W, D, sk["x"], sk["pat"], sk["form"])
    c = W.number("c")

    def do():
        x[K.key()] = c

    W.call(do)
    X = SL.lab(W, x)
    W.forall("mf.entries(wrong: no frame)", [W.size_of(D[l]) for l in sk["x"]], lambda idx: W.num_eq(X.at(dict(zip(sk["x"], idx))), c))


# ----------------------------------------------------------------------------------------
# tuple keys that name several items of one dimension, in any order and interleaved with items of other
# dimensions (bounded: a tuple has a concrete length, so the symbolic units take lists in dict keys instead)


@unit(
    "index.tuple_key_interleaved.bounded",
    props=["C05", "C06", "C04"],
    targets=["flodym.flodym_arrays.FlodymArray.__getitem__", "flodym.flodym_arrays.FlodymArray.__setitem__", "flodym.flodym_arrays.SubArrayHandler._to_dict_tuple", "flodym.flodym_arrays.SubArrayHandler._get_key_single_item", "flodym.flodym_arrays.SubArrayHandler._convert_lists_to_meshgrid"],
    skeletons=lambda tier: [{"rank": r, "op": op} for r in (2, 3, 4) for op in ("read", "write_number", "write_ndarray")],
    mode="bounded",
    note="x[i1, j1, i2, ...]: a tuple of bare items, zero, one or several per dimension, in random order (items of one dimension need not be adjacent, dimensions need not come in the array's order): the addressed region is the product of the named items per dimension (all items where none is named); a read returns it with single-item dimensions dropped (several items of one dimension in a read are claimed for writes only: a refusal is accepted), a write fills exactly it",
)
def u_tuple_key_interleaved(W, sk):
    import numpy as np
    from flodym.dimensions import Dimension, DimensionSet
    from flodym.flodym_arrays import FlodymArray

    rng = W.rng
    rank = sk["rank"]
    names = ["Element", "Region", "Time", "Product"][:rank]
    letters = ["e", "r", "t", "p"][:rank]
    dims = []
    for nm, l in zip(names, letters):
        n = rng.choice([2, 3, 4])
        items = [2000 + 5 * k for k in range(n)] if l == "t" else [f"{l.upper()}{k}" for k in range(n)]
        dims.append(Dimension(name=nm, letter=l, items=items, dtype=int if l == "t" else str))
    order = list(range(rank))
    rng.shuffle(order)  # storage order of the array
    dl = [dims[i] for i in order]
    shape = tuple(d.len for d in dl)
    vals = np.arange(1, int(np.prod(shape)) + 1, dtype=float).reshape(shape) + 0.5
    x = FlodymArray(dims=DimensionSet(dim_list=list(dl)), values=vals.copy(), name="x")
    # chosen items per dimension: none, one or several (in a random order)
    chosen = []
    for d in dl:
        k = rng.choice([0, 1, 1, 2, 2, 3])
        k = min(k, d.len)
        pos = list(range(d.len))
        rng.shuffle(pos)
        chosen.append(pos[:k])
    if not any(chosen):
        chosen[0] = [0]
    flat = [(a, p) for a, ps in enumerate(chosen) for p in ps]
    rng.shuffle(flat)
    # keep the per-dimension order as it appears in the key
    per_dim = [[p for a2, p in flat if a2 == a] for a in range(rank)]
    key = tuple(dl[a].items[p] for a, p in flat)
    if len(key) == 1:
        key = key[0]
    W.inputs.update({"letters": [d.letter for d in dl], "items": [list(d.items) for d in dl], "key": [str(k) for k in (key if isinstance(key, tuple) else (key,))]})
    region = np.ix_(*[(ps if ps else list(range(dl[a].len))) for a, ps in enumerate(per_dim)])
    kept = [a for a in range(rank) if len(per_dim[a]) != 1]
    squeeze_axes = tuple(a for a in range(rank) if len(per_dim[a]) == 1)
    want = np.squeeze(vals[region], axis=squeeze_axes) if squeeze_axes else vals[region]
    if sk["op"] == "read":
        out = W.call(lambda: x[key])
        if any(len(ps) > 1 for ps in per_dim) and out.kind == "raise":
            # several items of one dimension: the statement claims lists of items for writes only, and the library
            # refuses to build an array from such a read -- accepted; a result, if one is returned, is checked below
            W.prove("read.source_unchanged", bool(np.array_equal(x.values, vals)), kind="frame")
            return
        W.prove("read.returns", out.kind == "return", detail=repr(out))
        if out.kind != "return":
            return
        y = out.value
        W.prove("read.letters", tuple(y.dims.letters) == tuple(dl[a].letter for a in kept), detail=f"{y.dims.letters}")
        want_items = [[dl[a].items[p] for p in per_dim[a]] if per_dim[a] else list(dl[a].items) for a in kept]
        W.prove("read.items", [list(d.items) for d in y.dims] == want_items, detail=f"{[list(d.items) for d in y.dims]} expected {want_items}")
        W.prove("read.entries", np.shape(y.values) == want.shape and bool(np.array_equal(y.values, want)), detail=f"got {np.array(y.values).tolist()} expected {want.tolist()}")
        W.prove("read.source_unchanged", bool(np.array_equal(x.values, vals)), kind="frame")
        return
    if sk["op"] == "write_number":
        rhs = 7.25
        expect = vals.copy()
        expect[region] = rhs
    else:
        rhs = -(np.arange(want.size, dtype=float).reshape(want.shape) + 1)
        expect = vals.copy()
        expect[region] = rhs.reshape(vals[region].shape)
    out = W.call(lambda: x.__setitem__(key, rhs))
    W.prove("write.returns", out.kind == "return", detail=repr(out))
    if out.kind != "return":
        return
    W.prove("write.region_filled_rest_untouched", np.shape(x.values) == expect.shape and bool(np.array_equal(x.values, expect)), detail=f"differs at {np.argwhere(np.array(x.values) != expect).tolist()[:4]}")
