"""DataFrame export / import (C11, C12, parts of C04, C15): bounded run-time contract checks.

to_df / from_df / the importer live inside pandas (index heuristics, melt, pivot, type inference), which the
verifier cannot execute symbolically.  The whole-function contracts
    from_df(dims, g(to_df(x, layout))) == x          for every layout and every transformation g of the statement
    default flags: every data fault is refused and leaves no partially filled array; flags relax exactly their fault
are evaluated on real pandas for seeded random dimension sets, arrays (including arrays with permuted
memory layout), layouts, permutations and faults.  Bounded; never counted as proved.
"""
from __future__ import annotations

import itertools
import os
import tempfile

from fvc import speclib as SL
from fvc.units import unit

POOL = [
    ("Time", "t", int, [2000, 2005, 2010, 2020]),
    ("Region", "r", str, ["EU", "US", "CN"]),
    ("Product", "p", None, ["car", "bus"]),
    ("Element", "e", str, ["Fe"]),
    ("Grade", "g", None, ["hi", "lo", "mid"]),
]


def make_dims(W, k, allow_single=True):
    from flodym.dimensions import Dimension, DimensionSet

    pool = [p for p in POOL if allow_single or len(p[3]) > 1]
    W.rng.shuffle(pool)
    out = []
    for name, letter, dtype, items in pool[:k]:
        n = W.rng.randint(1 if (allow_single and W.rng.random() < 0.3) else 2, len(items)) if len(items) > 1 else 1
        its = list(items[:n])
        W.rng.shuffle(its)
        out.append(Dimension(name=name, letter=letter, items=its, dtype=dtype))
    return DimensionSet(dim_list=out)


def make_array(W, dims, zeros=0.0, strided=True):
    import numpy as np
    from flodym.flodym_arrays import FlodymArray

    shape = dims.shape
    vals = np.array([(W.rng.randint(1, 90) + 0.37) * W.rng.choice([1, -1]) for _ in range(int(np.prod(shape)) or 1)], dtype=float).reshape(shape)
    if zeros:
        mask = np.array([W.rng.random() < zeros for _ in range(vals.size)]).reshape(shape)
        vals[mask] = 0.0
    if strided and len(shape) >= 2 and W.rng.random() < 0.5:
        perm = list(range(len(shape)))
        W.rng.shuffle(perm)
        vals = np.ascontiguousarray(vals.transpose(perm)).transpose(np.argsort(perm))
    return FlodymArray(dims=dims, values=vals, name="x")


def check_listing(W, name, x, df, sparse):
    """to_df lists every entry once under its true labels (sparse: exactly the non-zero entries)"""
    import numpy as np

    rows = {}
    dup = False
    d = df.reset_index() if not all(n in df.columns for n in x.dims.names) else df
    for _, row in d.iterrows():
        key = tuple(row[n] for n in x.dims.names)
        dup = dup or key in rows
        rows[key] = float(row["value"])
    want = {}
    for idx in np.ndindex(*x.values.shape):
        v = float(x.values[idx])
        if sparse and v == 0.0:
            continue
        want[tuple(dm.items[i] for dm, i in zip(x.dims.dim_list, idx))] = v
    W.prove(f"{name}.every_entry_once_under_its_true_labels", (not dup) and rows == want, detail=f"{len(rows)} rows vs {len(want)} entries")


def sk_roundtrip(tier):
    out = []
    for k in (1, 2, 3) + ((4,) if tier == "thorough" else ()):
        for layout in ("long_index", "long_columns", "wide_index", "wide_columns", "sparse"):
            if k == 1 and layout.startswith("wide"):
                continue
            out.append({"ndim": k, "layout": layout})
    return out


@unit(
    "tables.export_import_round_trip.bounded",
    props=["C11", "C04", "C15"],
    targets=["flodym.flodym_arrays.FlodymArray.to_df", "flodym.flodym_arrays.FlodymArray.from_df", "flodym.flodym_arrays.FlodymArray.set_values_from_df", "flodym._df_to_flodym_array.DataFrameToFlodymDataConverter.get_target_values", "flodym._df_to_flodym_array.DataFrameToFlodymDataConverter._check_data_complete"],
    skeletons=sk_roundtrip,
    mode="bounded",
    note="layouts of to_df x {row permutation, column permutation, letters instead of names, items only, other value-column name, single-item dimensions left out, CSV text round trip}; dimensions 1-3 (thorough: 4) with int / str / untyped items and single-item dimensions; arrays partly with permuted memory layout; values have a fractional part so they cannot be mistaken for items",
)
def u_roundtrip(W, sk):
    import numpy as np
    import pandas as pd
    from flodym.flodym_arrays import FlodymArray

    rng = W.rng
    dims = make_dims(W, sk["ndim"])
    layout = sk["layout"]
    sparse = layout == "sparse"
    x = make_array(W, dims, zeros=0.4 if sparse else 0.0)
    snap = np.array(x.values, copy=True)
    multi = [d for d in dims.dim_list if len(d.items) > 1]
    kw = {}
    if layout.startswith("wide"):
        cand = multi or list(dims.dim_list)
        cd = rng.choice(cand)
        kw["dim_to_columns"] = rng.choice([cd.name, cd.letter])
    kw["index"] = layout in ("long_index", "wide_index", "sparse")
    kw["sparse"] = sparse
    W.inputs["layout"] = {k: str(v) for k, v in kw.items()}
    out = W.call(lambda: x.to_df(**kw))
    W.prove("to_df.returns", out.kind == "return", detail=repr(out))
    if out.kind != "return":
        return
    df = out.value
    W.prove("to_df.source_unchanged", bool(np.array_equal(x.values, snap)))
    if not layout.startswith("wide"):
        check_listing(W, "to_df", x, df, sparse)
    # transformations of the statement
    steps = []
    g = df.copy()
    if rng.random() < 0.7:
        g = g.sample(frac=1.0, random_state=rng.randrange(10**6))
        steps.append("rows permuted")
    wide = layout.startswith("wide")
    if rng.random() < 0.5:
        cols = list(g.columns)
        rng.shuffle(cols)
        g = g[cols]
        steps.append("columns permuted")
    style = rng.choice(["names", "letters", "items_only"])
    name2letter = {d.name: d.letter for d in dims.dim_list}
    if style == "letters":
        g = g.rename(columns=name2letter)
        if list(g.index.names) != [None]:
            new_names = [name2letter.get(n, n) for n in g.index.names]
            g.index = g.index.rename(new_names if isinstance(g.index, pd.MultiIndex) else new_names[0])
        steps.append("dimension letters as headers")
    elif style == "items_only" and not wide and not sparse and not kw["index"]:
        # dimension columns identified only through their items; they must precede the value column
        dcols = [c for c in g.columns if c in name2letter]
        g = g[dcols + [c for c in g.columns if c not in name2letter]]
        g = g.rename(columns={c: f"col{j}" for j, c in enumerate(dcols)})
        steps.append("items only")
    if not wide and rng.random() < 0.4:
        g = g.rename(columns={"value": rng.choice(["amount", "v", "Wert"])})
        steps.append("value column renamed")
    singles = [d for d in dims.dim_list if len(d.items) == 1]
    if singles and rng.random() < 0.6 and len(dims.dim_list) > len(singles):
        for d in singles:
            for key in (d.name, d.letter):
                if key in g.columns:
                    g = g.drop(columns=[key])
                elif key in (g.index.names or []):
                    g = g.reset_index(level=key, drop=True)
        steps.append("single-item dimensions left out")
    if rng.random() < 0.4:
        d_ = tempfile.mkdtemp(prefix="fvc_csv_")
        try:
            path = os.path.join(d_, "x.csv")
            named_index = list(g.index.names) != [None]
            g.to_csv(path, index=named_index)
            g = pd.read_csv(path, float_precision="round_trip")
        finally:
            import shutil

            shutil.rmtree(d_, ignore_errors=True)
        steps.append("CSV text round trip")
    W.inputs["transformations"] = steps
    back = W.call(lambda: FlodymArray.from_df(dims=dims, df=g, allow_missing_values=sparse))
    W.prove("from_df.returns", back.kind == "return", detail=f"{back!r} after {steps}")
    if back.kind != "return":
        return
    y = back.value
    W.prove("from_df.identical_array", y.dims.letters == x.dims.letters and y.values.shape == x.values.shape and bool(np.allclose(y.values, x.values, rtol=0, atol=1e-12)), detail=f"after {steps}")
    SL.check_wf(W, "from_df.result", y)
    W.prove("from_df.source_unchanged", bool(np.array_equal(x.values, snap)))


def long_table(x):
    import pandas as pd
    import numpy as np

    rows = []
    for idx in np.ndindex(*x.values.shape):
        r = {dm.name: dm.items[i] for dm, i in zip(x.dims.dim_list, idx)}
        r["value"] = float(x.values[idx])
        rows.append(r)
    return pd.DataFrame(rows)


FAULTS = ["row_dropped", "row_duplicated", "row_relabelled_onto_existing", "row_relabelled_unknown_item", "extra_row_unknown_item", "value_blank", "column_missing", "two_value_columns", "dropped_and_duplicated"]


def sk_faults(tier):
    out = []
    for f in FAULTS:
        for flags in ((False, False), (True, False), (False, True), (True, True)):
            for via in ("from_df", "set_values_from_df", "csv_reader"):
                if tier == "quick" and via == "csv_reader" and flags not in ((False, False), (True, True)):
                    continue
                out.append({"fault": f, "allow_missing": flags[0], "allow_extra": flags[1], "via": via})
    return out


@unit(
    "tables.data_faults.bounded",
    props=["C12", "C13"],
    targets=[
        "flodym.flodym_arrays.FlodymArray.from_df",
        "flodym.flodym_arrays.FlodymArray.set_values_from_df",
        "flodym._df_to_flodym_array.DataFrameToFlodymDataConverter._check_data_complete",
        "flodym._df_to_flodym_array.DataFrameToFlodymDataConverter._check_missing_dim_columns",
        "flodym._df_to_flodym_array.DataFrameToFlodymDataConverter._check_if_valid_long_format",
        "flodym.data_reader.CSVParameterReader.read_parameter_values",
    ],
    skeletons=sk_faults,
    mode="bounded",
    note="one fault (or a combined fault) injected into a complete long table at a random position; four flag combinations; through from_df, set_values_from_df on a pre-filled array (must stay untouched when refused) and the CSV parameter reader (flags forwarded)",
)
def u_faults(W, sk):
    import numpy as np
    import pandas as pd
    from flodym.flodym_arrays import FlodymArray, Parameter
    from flodym.data_reader import CSVParameterReader

    rng = W.rng
    dims = make_dims(W, rng.choice([2, 3]), allow_single=False)
    x = make_array(W, dims, strided=False)
    df = long_table(x).sample(frac=1.0, random_state=rng.randrange(10**6)).reset_index(drop=True)
    n = len(df)
    am, ae = sk["allow_missing"], sk["allow_extra"]
    fault = sk["fault"]
    expect_error = True
    want = np.array(x.values, copy=True)
    d0 = dims.dim_list[0]
    unknown = 1999 if d0.dtype is int else "Atlantis"
    i = rng.randrange(n)

    def label_index(row):
        return tuple(dm.items.index(row[dm.name]) for dm in dims.dim_list)

    if fault == "row_dropped":
        want[label_index(df.iloc[i])] = 0.0
        df = df.drop(index=i)
        expect_error = not am
    elif fault == "row_duplicated":
        df = pd.concat([df, df.iloc[[i]]], ignore_index=True)
        expect_error = True
    elif fault == "row_relabelled_onto_existing":
        j = (i + 1 + rng.randrange(n - 1)) % n
        for dm in dims.dim_list:
            df.at[i, dm.name] = df.at[j, dm.name]
        expect_error = True  # a duplicated label combination (and a missing one)
    elif fault == "row_relabelled_unknown_item":
        want[label_index(df.iloc[i])] = 0.0
        df[d0.name] = df[d0.name].astype(object)
        df.at[i, d0.name] = unknown
        expect_error = not (ae and am)
    elif fault == "extra_row_unknown_item":
        extra = df.iloc[[i]].copy()
        extra[d0.name] = extra[d0.name].astype(object)
        extra.iloc[0, extra.columns.get_loc(d0.name)] = unknown
        df = pd.concat([df.astype({d0.name: object}), extra], ignore_index=True)
        expect_error = not ae
    elif fault == "value_blank":
        want[label_index(df.iloc[i])] = 0.0
        df.at[i, "value"] = np.nan
        expect_error = not am
    elif fault == "column_missing":
        df = df.drop(columns=[d0.name])
        expect_error = True
    elif fault == "two_value_columns":
        df["second value"] = df["value"] * 2
        expect_error = True
    elif fault == "dropped_and_duplicated":
        j = (i + 1 + rng.randrange(n - 1)) % n
        df = pd.concat([df.drop(index=i), df.iloc[[j]]], ignore_index=True)
        expect_error = True
    df = df.sample(frac=1.0, random_state=rng.randrange(10**6)).reset_index(drop=True)
    W.inputs["table"] = df.astype(str).values.tolist()
    via = sk["via"]
    if via == "from_df":
        out = W.call(lambda: FlodymArray.from_df(dims=dims, df=df, allow_missing_values=am, allow_extra_values=ae))
        got = out.value.values if out.kind == "return" else None
    elif via == "set_values_from_df":
        target = FlodymArray(dims=dims, values=np.full(dims.shape, -7.5))
        out = W.call(lambda: target.set_values_from_df(df, allow_missing_values=am, allow_extra_values=ae))
        got = target.values if out.kind == "return" else None
        if out.kind == "raise":
            W.prove("refused_import_leaves_the_array_untouched", target.values.shape == dims.shape and bool(np.all(target.values == -7.5)))
    else:
        d_ = tempfile.mkdtemp(prefix="fvc_prm_")
        try:
            path = os.path.join(d_, "p.csv")
            df.to_csv(path, index=False)
            reader = CSVParameterReader(parameter_files={"p": path}, allow_missing_values=am, allow_extra_values=ae)
            out = W.call(lambda: reader.read_parameter_values("p", dims))
            got = out.value.values if out.kind == "return" else None
            if out.kind == "return":
                W.prove("csv_reader.returns_parameter_with_name", isinstance(out.value, Parameter) and out.value.name == "p")
        finally:
            import shutil

            shutil.rmtree(d_, ignore_errors=True)
    if expect_error:
        W.prove(f"fault[{fault}].refused", out.kind == "raise" and isinstance(out.exc, Exception), detail=f"{out!r} flags missing={am} extra={ae}")
    else:
        W.prove(f"fault[{fault}].accepted_with_flag", out.kind == "return", detail=f"{out!r} flags missing={am} extra={ae}")
        if out.kind == "return":
            W.prove(f"fault[{fault}].every_present_entry_under_its_labels_missing_ones_zero", got.shape == want.shape and bool(np.allclose(got, want, rtol=0, atol=1e-12)))
