"""DataFrame export / import (C11, C12, parts of C04, C15): bounded run-time contract checks.

to_df / from_df / the importer live inside pandas (index heuristics, melt, pivot, type inference), which the
verifier cannot execute symbolically.  The whole-function contracts
    from_df(dims, g(to_df(x, layout))) == x          for every layout and every transformation g of the statement
    default flags: every data fault is refused and leaves no partially filled array; flags relax exactly their fault
are evaluated on real pandas for seeded random dimension sets, arrays (including arrays with permuted
memory layout), layouts, permutations and faults.  Bounded; never counted as proved.
"""
from __future__ import annotations

import itertools
import os
import tempfile

from fvc import speclib as SL
from fvc.units import unit

POOL = [
    ("Time", "t", int, [2000, 2005, 2010, 2020]),
    ("Region", "r", str, ["EU", "US", "CN"]),
    ("Product", "p", None, ["car", "bus"]),
    ("Element", "e", str, ["Fe"]),
    ("Grade", "g", None, ["hi", "lo", "mid"]),
    ("Alloy series", "a", str, ["1000", "3000", "5000"]),  # a str-typed dimension whose items look like numbers
    ("Destination", "d", str, ["US", "EU", "JP"]),  # shares items with Region, the item sets differ
]


def make_dims(W, k, allow_single=True):
    from flodym.dimensions import Dimension, DimensionSet

    pool = [p for p in POOL if allow_single or len(p[3]) > 1]
    W.rng.shuffle(pool)
    out = []
    for name, letter, dtype, items in pool[:k]:
        n = W.rng.randint(1 if (allow_single and W.rng.random() < 0.3) else 2, len(items)) if len(items) > 1 else 1
        its = list(items[:n])
        W.rng.shuffle(its)
        # precondition of C11: pairwise different item sets (Region and Destination share items)
        if any(set(its) == set(o.items) for o in out):
            its = list(items)
            W.rng.shuffle(its)
        out.append(Dimension(name=name, letter=letter, items=its, dtype=dtype))
    return DimensionSet(dim_list=out)


def make_array(W, dims, zeros=0.0, strided=True):
    import numpy as np
    from flodym.flodym_arrays import FlodymArray

    shape = dims.shape
    vals = np.array([(W.rng.randint(1, 90) + 0.37) * W.rng.choice([1, -1]) for _ in range(int(np.prod(shape)) or 1)], dtype=float).reshape(shape)
    if zeros:
        mask = np.array([W.rng.random() < zeros for _ in range(vals.size)]).reshape(shape)
        vals[mask] = 0.0
    if strided and len(shape) >= 2 and W.rng.random() < 0.5:
        perm = list(range(len(shape)))
        W.rng.shuffle(perm)
        vals = np.ascontiguousarray(vals.transpose(perm)).transpose(np.argsort(perm))
    return FlodymArray(dims=dims, values=vals, name="x")


def check_listing(W, name, x, df, sparse):
    """to_df lists every entry once under its true labels (sparse: exactly the non-zero entries)"""
    import numpy as np

    rows = {}
    dup = False
    d = df.reset_index() if not all(n in df.columns for n in x.dims.names) else df
    for _, row in d.iterrows():
        key = tuple(row[n] for n in x.dims.names)
        dup = dup or key in rows
        rows[key] = float(row["value"])
    want = {}
    for idx in np.ndindex(*x.values.shape):
        v = float(x.values[idx])
        if sparse and v == 0.0:
            continue
        want[tuple(dm.items[i] for dm, i in zip(x.dims.dim_list, idx))] = v
    W.prove(f"{name}.every_entry_once_under_its_true_labels", (not dup) and rows == want, detail=f"{len(rows)} rows vs {len(want)} entries")


def check_wide_listing(W, name, x, df, cdim):
    """wide layout: one row per combination of the other dimensions' items, one column per item of cdim; every
    cell holds the entry stored under the row's labels and the column's item"""
    import numpy as np

    others = [d for d in x.dims.dim_list if d.letter != cdim.letter]
    d = df.reset_index() if not all(o.name in df.columns for o in others) else df
    ok = len(d) == int(np.prod([len(o.items) for o in others]) if others else 1) and all(it in d.columns for it in cdim.items)
    seen = set()
    if ok:
        for _, row in d.iterrows():
            key = tuple(row[o.name] for o in others)
            if key in seen:
                ok = False
            seen.add(key)
            for it in cdim.items:
                idx = []
                for dm in x.dims.dim_list:
                    idx.append(dm.items.index(it) if dm.letter == cdim.letter else dm.items.index(row[dm.name]))
                if float(row[it]) != float(x.values[tuple(idx)]):
                    ok = False
    W.prove(f"{name}.wide.every_entry_once_under_its_true_labels", ok, detail=f"{len(d)} rows, columns {list(d.columns)}")


def sk_roundtrip(tier):
    out = []
    for k in (1, 2, 3) + ((4,) if tier == "thorough" else ()):
        for layout in ("long_index", "long_columns", "wide_index", "wide_columns", "sparse"):
            if k == 1 and layout.startswith("wide"):
                continue
            if layout.startswith("wide"):
                # which dimension is spread over the columns: every position
                for col in range(k):
                    out.append({"ndim": k, "layout": layout, "col": col})
                continue
            out.append({"ndim": k, "layout": layout})
    out.append({"ndim": 2, "layout": "long_columns", "overlap": True})
    # two dimensions over the very same items (origin / destination), told apart by their names or letters only
    for lay in ("long_index", "long_columns"):
        out.append({"ndim": 3, "layout": lay, "same_items": True})
    out.append({"ndim": 2, "layout": "headerless_lookalike"})
    return out


@unit(
    "tables.export_import_round_trip.bounded",
    props=["C11", "C04", "C15"],
    targets=["flodym.flodym_arrays.FlodymArray.to_df", "flodym.flodym_arrays.FlodymArray.from_df", "flodym.flodym_arrays.FlodymArray.set_values_from_df", "flodym._df_to_flodym_array.DataFrameToFlodymDataConverter.get_target_values", "flodym._df_to_flodym_array.DataFrameToFlodymDataConverter._check_data_complete"],
    skeletons=sk_roundtrip,
    mode="bounded",
    note="layouts of to_df x {row permutation, column permutation, letters instead of names, items only, other value-column name, single-item dimensions left out, CSV text round trip}; dimensions 1-3 (thorough: 4) with int / str / untyped items and single-item dimensions; arrays partly with permuted memory layout; values have a fractional part so they cannot be mistaken for items",
)
def u_roundtrip(W, sk):
    import numpy as np
    import pandas as pd
    from flodym.flodym_arrays import FlodymArray

    rng = W.rng
    if sk["layout"] == "headerless_lookalike":
        # a CSV file without a header line whose first row holds a value that reads like a continuation of an item in
        # the same row (item 0 and value 0.25, year 2000 and value 2000.5): pandas takes that row for column names
        from flodym.dimensions import Dimension, DimensionSet

        ints = rng.choice([[0, 1, 2], [2000, 2010], [1, 2, 3, 4]])
        A = Dimension(name="Age" if ints[0] < 100 else "Year", letter="a", items=list(ints), dtype=int)
        R = Dimension(name="Region", letter="r", items=["EU", "US", "CN"][: rng.choice([1, 2, 3])], dtype=str)
        pair = [A, R]
        rng.shuffle(pair)
        dims = DimensionSet(dim_list=pair)
        vals = np.zeros(dims.shape)
        for idx in np.ndindex(*dims.shape):
            a_item = A.items[idx[pair.index(A)]]
            vals[idx] = float(a_item) + rng.choice([0.25, 0.5, 0.75, 0.125]) + (0.0 if rng.random() < 0.7 else 1.0)
        x = FlodymArray(dims=dims, values=vals.copy())
        g = long_table(x)
        if rng.random() < 0.6:
            g = g.sample(frac=1.0, random_state=rng.randrange(10**6))
        W.inputs["table"] = g.astype(str).values.tolist()
        d_ = tempfile.mkdtemp(prefix="fvc_csv_")
        try:
            path = os.path.join(d_, "x.csv")
            g.to_csv(path, index=False, header=False)
            g = pd.read_csv(path, float_precision="round_trip")
        finally:
            import shutil

            shutil.rmtree(d_, ignore_errors=True)
        back = W.call(lambda: FlodymArray.from_df(dims=dims, df=g))
        W.prove("from_df(header-less file, look-alike first row).returns", back.kind == "return", detail=repr(back))
        if back.kind == "return":
            W.prove("from_df(header-less file, look-alike first row).identical_array", back.value.values.shape == vals.shape and bool(np.array_equal(back.value.values, vals)), detail=f"got {np.array(back.value.values).tolist()} expected {vals.tolist()}")
        return
    dims = make_dims(W, sk["ndim"])
    if sk.get("overlap"):
        # two dimensions whose item sets overlap or are nested (but differ), identified only through their items
        from flodym.dimensions import Dimension, DimensionSet

        a = ["EU", "US", "CN"][: rng.choice([2, 3])]
        b = rng.choice([["US", "EU", "JP"], ["US", "EU"], ["EU", "US", "CN", "JP"]])
        if set(a) == set(b):
            b = b + ["IN"]
        pair = [Dimension(name="Region", letter="r", items=a, dtype=str), Dimension(name="Destination", letter="d", items=b, dtype=str)]
        rng.shuffle(pair)
        dims = DimensionSet(dim_list=pair)
    if sk.get("same_items"):
        from flodym.dimensions import Dimension, DimensionSet

        regions = ["EU", "US", "CN"][: rng.choice([2, 3])]
        trio = [Dimension(name="Origin", letter="o", items=list(regions), dtype=str), Dimension(name="Destination", letter="d", items=list(regions), dtype=str), Dimension(name="Time", letter="t", items=[2000, 2010][: rng.choice([1, 2])], dtype=int)]
        rng.shuffle(trio)
        dims = DimensionSet(dim_list=trio)
    layout = sk["layout"]
    sparse = layout == "sparse"
    x = make_array(W, dims, zeros=0.4 if sparse else 0.0)
    snap = np.array(x.values, copy=True)
    multi = [d for d in dims.dim_list if len(d.items) > 1]
    kw = {}
    if layout.startswith("wide"):
        cand = multi or list(dims.dim_list)
        cd = rng.choice(cand)
        if "col" in sk and len(dims.dim_list[sk["col"]].items) > 1:
            cd = dims.dim_list[sk["col"]]
        kw["dim_to_columns"] = rng.choice([cd.name, cd.letter])
    kw["index"] = layout in ("long_index", "wide_index", "sparse")
    kw["sparse"] = sparse
    W.inputs["layout"] = {k: str(v) for k, v in kw.items()}
    out = W.call(lambda: x.to_df(**kw))
    W.prove("to_df.returns", out.kind == "return", detail=repr(out))
    if out.kind != "return":
        return
    df = out.value
    W.prove("to_df.source_unchanged", bool(np.array_equal(x.values, snap)))
    if not layout.startswith("wide"):
        check_listing(W, "to_df", x, df, sparse)
    else:
        check_wide_listing(W, "to_df", x, df, dims[kw["dim_to_columns"]])
    # transformations of the statement
    steps = []
    g = df.copy()
    if rng.random() < 0.7:
        g = g.sample(frac=1.0, random_state=rng.randrange(10**6))
        steps.append("rows permuted")
    wide = layout.startswith("wide")
    if rng.random() < 0.5:
        cols = list(g.columns)
        rng.shuffle(cols)
        g = g[cols]
        steps.append("columns permuted")
    style = rng.choice(["names", "letters", "items_only"])
    if sk.get("overlap"):
        style = "items_only"
    if sk.get("same_items"):
        style = rng.choice(["names", "names", "letters"])
    name2letter = {d.name: d.letter for d in dims.dim_list}
    if style == "letters":
        g = g.rename(columns=name2letter)
        if list(g.index.names) != [None]:
            new_names = [name2letter.get(n, n) for n in g.index.names]
            g.index = g.index.rename(new_names if isinstance(g.index, pd.MultiIndex) else new_names[0])
        steps.append("dimension letters as headers")
    elif style == "items_only" and not wide and not sparse and not kw["index"]:
        # dimension columns identified only through their items; they must precede the value column
        dcols = [c for c in g.columns if c in name2letter]
        g = g[dcols + [c for c in g.columns if c not in name2letter]]
        g = g.rename(columns={c: f"col{j}" for j, c in enumerate(dcols)})
        steps.append("items only")
    if not wide and rng.random() < 0.4:
        g = g.rename(columns={"value": rng.choice(["amount", "v", "Wert"])})
        steps.append("value column renamed")
    singles = [d for d in dims.dim_list if len(d.items) == 1]
    if singles and rng.random() < 0.6 and len(dims.dim_list) > len(singles):
        for d in singles:
            for key in (d.name, d.letter):
                if key in g.columns:
                    g = g.drop(columns=[key])
                elif key in (g.index.names or []):
                    g = g.reset_index(level=key, drop=True)
        steps.append("single-item dimensions left out")
    if not sparse and not isinstance(g.index, pd.MultiIndex) and g.index.name is not None and rng.random() < 0.5:
        # a single dimension held in an index without a name: recognised through its items
        g.index = g.index.rename(None)
        steps.append("index name removed")
    if layout == "long_columns" and style == "names" and not sk.get("same_items") and "columns permuted" not in steps and "single-item dimensions left out" not in steps and "value column renamed" not in steps and rng.random() < 0.25:
        # a CSV file without a header line, read as if it had one: the first data row ends up as column names
        d_ = tempfile.mkdtemp(prefix="fvc_csv_")
        try:
            path = os.path.join(d_, "x.csv")
            g.to_csv(path, index=False, header=False)
            g = pd.read_csv(path, float_precision="round_trip")
        finally:
            import shutil

            shutil.rmtree(d_, ignore_errors=True)
        steps.append("CSV without header line")
    elif rng.random() < (0.2 if sk.get("same_items") else 0.4):
        d_ = tempfile.mkdtemp(prefix="fvc_csv_")
        try:
            path = os.path.join(d_, "x.csv")
            named_index = list(g.index.names) != [None] or "index name removed" in steps
            g.to_csv(path, index=named_index)
            g = pd.read_csv(path, float_precision="round_trip")
        finally:
            import shutil

            shutil.rmtree(d_, ignore_errors=True)
        steps.append("CSV text round trip")
    W.inputs["transformations"] = steps
    g0 = g.copy(deep=True)
    # allow_missing_values is needed for sparse tables; for complete tables it must not change anything
    am = sparse or rng.random() < 0.4
    W.inputs["allow_missing_values"] = am
    # the receiving array may store the dimensions in another order than the exporting one (labels decide)
    tdims, perm = dims, list(range(len(dims.dim_list)))
    if len(perm) > 1 and "items only" not in steps and "CSV without header line" not in steps and (sk.get("same_items") or rng.random() < 0.5):
        from flodym.dimensions import DimensionSet

        if sk.get("same_items") and rng.random() < 0.7:
            # only the two dimensions over the same items change places
            i_o, i_d = [i for i, d in enumerate(dims.dim_list) if d.letter in ("o", "d")]
            perm[i_o], perm[i_d] = perm[i_d], perm[i_o]
        while perm == sorted(perm):
            rng.shuffle(perm)
        tdims = DimensionSet(dim_list=[dims.dim_list[i] for i in perm])
        W.inputs["receiving_array_stores_dimensions_in_order"] = [dims.dim_list[i].letter for i in perm]
    back = W.call(lambda: FlodymArray.from_df(dims=tdims, df=g, allow_missing_values=am))
    W.prove("from_df.given_table_unchanged", same_frame(g, g0), detail=f"after {steps}: columns {list(g0.columns)} -> {list(g.columns)}, dtypes {[str(t) for t in g0.dtypes]} -> {[str(t) for t in g.dtypes]}")
    W.prove("from_df.returns", back.kind == "return", detail=f"{back!r} after {steps}")
    if back.kind != "return":
        return
    y = back.value
    want_vals = np.transpose(x.values, perm) if len(perm) > 1 else x.values
    W.prove("from_df.identical_array", y.dims.letters == tdims.letters and y.values.shape == want_vals.shape and bool(np.allclose(y.values, want_vals, rtol=0, atol=1e-12)), detail=f"after {steps}")
    SL.check_wf(W, "from_df.result", y)
    W.prove("from_df.source_unchanged", bool(np.array_equal(x.values, snap)))


def same_frame(a, b):
    """the caller's DataFrame is exactly as it was: same columns, index, dtypes and cells"""
    try:
        return (
            list(a.columns) == list(b.columns)
            and list(a.index.names) == list(b.index.names)
            and [str(t) for t in a.dtypes] == [str(t) for t in b.dtypes]
            and a.index.equals(b.index)
            and a.equals(b)
        )
    except Exception:
        return False


def long_table(x):
    import pandas as pd
    import numpy as np

    rows = []
    for idx in np.ndindex(*x.values.shape):
        r = {dm.name: dm.items[i] for dm, i in zip(x.dims.dim_list, idx)}
        r["value"] = float(x.values[idx])
        rows.append(r)
    return pd.DataFrame(rows)


FAULTS = ["row_dropped", "row_duplicated", "row_relabelled_onto_existing", "row_relabelled_unknown_item", "extra_row_unknown_item", "value_blank", "column_missing", "two_value_columns", "dropped_and_duplicated"]


def sk_faults(tier):
    out = []
    for f in FAULTS:
        for flags in ((False, False), (True, False), (False, True), (True, True)):
            for via in ("from_df", "set_values_from_df", "csv_reader"):
                if tier == "quick" and via == "csv_reader" and flags not in ((False, False), (True, True)):
                    continue
                out.append({"fault": f, "allow_missing": flags[0], "allow_extra": flags[1], "via": via})
    return out


@unit(
    "tables.data_faults.bounded",
    props=["C12", "C13", "C11"],
    only_clauses={"C11": ["*entries_come_from_the_rows_carrying_their_labels"]},
    targets=[
        "flodym.flodym_arrays.FlodymArray.from_df",
        "flodym.flodym_arrays.FlodymArray.set_values_from_df",
        "flodym._df_to_flodym_array.DataFrameToFlodymDataConverter._check_data_complete",
        "flodym._df_to_flodym_array.DataFrameToFlodymDataConverter._check_missing_dim_columns",
        "flodym._df_to_flodym_array.DataFrameToFlodymDataConverter._check_if_valid_long_format",
        "flodym.data_reader.CSVParameterReader.read_parameter_values",
    ],
    skeletons=sk_faults,
    mode="bounded",
    note="one fault (or a combined fault) injected into a complete long table at a random position; four flag combinations; through from_df, set_values_from_df on a pre-filled array (must stay untouched when refused) and the CSV parameter reader (flags forwarded)",
)
def u_faults(W, sk):
    import numpy as np
    import pandas as pd
    from flodym.flodym_arrays import FlodymArray, Parameter
    from flodym.data_reader import CSVParameterReader

    rng = W.rng
    # single-item dimensions included (their column may be given, too); at least two entries in the array
    for _ in range(50):
        dims = make_dims(W, rng.choice([2, 3]), allow_single=True)
        if dims.total_size >= 2:
            break
    x = make_array(W, dims, strided=False)
    df = long_table(x).sample(frac=1.0, random_state=rng.randrange(10**6)).reset_index(drop=True)
    n = len(df)
    am, ae = sk["allow_missing"], sk["allow_extra"]
    fault = sk["fault"]
    expect_error = True
    want = np.array(x.values, copy=True)
    # the dimension that gets the unknown item: any, also a single-item one; the dropped column: a multi-item one
    d0 = rng.choice(list(dims.dim_list))
    if fault == "column_missing":
        d0 = rng.choice([d for d in dims.dim_list if len(d.items) > 1])
    W.inputs["fault_dimension"] = d0.name
    unknown = 1999 if d0.dtype is int else "Atlantis"
    if d0.dtype is not int and all(isinstance(it, str) for it in d0.items):
        # an unknown item may look like a known one: a known item with something appended, or cut short
        longest = max(d0.items, key=len)
        cand = {"Atlantis": "Atlantis", "extended": longest + "27", "cut_short": longest[:-1], "other_case": longest.swapcase(), "padded": longest + " "}
        kind_ = rng.choice(list(cand))
        numeric_looking = longest.strip().replace(".", "", 1).lstrip("+-").isdigit()
        if kind_ == "padded" and (numeric_looking or sk["via"] == "csv_reader"):
            kind_ = "extended"  # (a CSV parser reads '3000 ' as the number 3000: not an unknown item any more)
        if cand[kind_] and cand[kind_] not in d0.items:
            unknown = cand[kind_]
            W.inputs["unknown_item"] = unknown
    i = rng.randrange(n)

    def label_index(row):
        return tuple(dm.items.index(row[dm.name]) for dm in dims.dim_list)

    if fault == "row_dropped":
        want[label_index(df.iloc[i])] = 0.0
        df = df.drop(index=i)
        expect_error = not am
    elif fault == "row_duplicated":
        df = pd.concat([df, df.iloc[[i]]], ignore_index=True)
        expect_error = True
    elif fault == "row_relabelled_onto_existing":
        j = (i + 1 + rng.randrange(n - 1)) % n
        for dm in dims.dim_list:
            df.at[i, dm.name] = df.at[j, dm.name]
        expect_error = True  # a duplicated label combination (and a missing one)
    elif fault == "row_relabelled_unknown_item":
        want[label_index(df.iloc[i])] = 0.0
        df[d0.name] = df[d0.name].astype(object)
        df.at[i, d0.name] = unknown
        expect_error = not (ae and am)
    elif fault == "extra_row_unknown_item":
        extra = df.iloc[[i]].copy()
        extra[d0.name] = extra[d0.name].astype(object)
        extra.iloc[0, extra.columns.get_loc(d0.name)] = unknown
        df = pd.concat([df.astype({d0.name: object}), extra], ignore_index=True)
        expect_error = not ae
    elif fault == "value_blank":
        want[label_index(df.iloc[i])] = 0.0
        df.at[i, "value"] = np.nan
        expect_error = not am
    elif fault == "column_missing":
        df = df.drop(columns=[d0.name])
        expect_error = True
    elif fault == "two_value_columns":
        df["second value"] = df["value"] * 2
        expect_error = True
    elif fault == "dropped_and_duplicated":
        j = (i + 1 + rng.randrange(n - 1)) % n
        df = pd.concat([df.drop(index=i), df.iloc[[j]]], ignore_index=True)
        expect_error = True
    df = df.sample(frac=1.0, random_state=rng.randrange(10**6)).reset_index(drop=True)
    if rng.random() < 0.4:
        df = df.rename(columns={dm.name: dm.letter for dm in dims.dim_list})
        W.inputs["headers"] = "dimension letters"
    if rng.random() < 0.35 and len(df) >= 2:
        # row labels of the frame repeat (as after pd.concat of partial tables): rows are rows, whatever their label
        df.index = np.arange(len(df)) % max(2, len(df) // 2)
        W.inputs["row_labels"] = "repeated"
    W.inputs["table"] = df.astype(str).values.tolist()
    via = sk["via"]
    df0 = df.copy(deep=True)
    if via == "from_df":
        out = W.call(lambda: FlodymArray.from_df(dims=dims, df=df, allow_missing_values=am, allow_extra_values=ae))
        got = out.value.values if out.kind == "return" else None
        W.prove("given_table_unchanged", same_frame(df, df0), detail=f"columns {list(df0.columns)} -> {list(df.columns)}")
    elif via == "set_values_from_df":
        target = FlodymArray(dims=dims, values=np.full(dims.shape, -7.5))
        out = W.call(lambda: target.set_values_from_df(df, allow_missing_values=am, allow_extra_values=ae))
        got = target.values if out.kind == "return" else None
        W.prove("given_table_unchanged", same_frame(df, df0), detail=f"columns {list(df0.columns)} -> {list(df.columns)}")
        if out.kind == "raise":
            W.prove("refused_import_leaves_the_array_untouched", target.values.shape == dims.shape and bool(np.all(target.values == -7.5)))
    else:
        d_ = tempfile.mkdtemp(prefix="fvc_prm_")
        try:
            path = os.path.join(d_, "p.csv")
            df.to_csv(path, index=False)
            reader = CSVParameterReader(parameter_files={"p": path}, allow_missing_values=am, allow_extra_values=ae)
            out = W.call(lambda: reader.read_parameter_values("p", dims))
            got = out.value.values if out.kind == "return" else None
            if out.kind == "return":
                W.prove("csv_reader.returns_parameter_with_name", isinstance(out.value, Parameter) and out.value.name == "p")
        finally:
            import shutil

            shutil.rmtree(d_, ignore_errors=True)
    if out.kind == "return" and fault not in ("column_missing", "two_value_columns"):
        # whatever the flags: a returned array holds, at every entry, the value of the one row of the given table that
        # carries that entry's labels (zero where there is no such row or its value is blank)
        cols = {dm.name: (dm.name if dm.name in df0.columns else dm.letter) for dm in dims.dim_list}

        def carries(v, item):
            # (the importer converts a label column to the item type of its dimension before comparing)
            try:
                return type(item)(v) == item
            except (TypeError, ValueError):
                return False

        ok, bad = True, None
        for idx in np.ndindex(*dims.shape):
            m = np.ones(len(df0), dtype=bool)
            for dm, i_ in zip(dims.dim_list, idx):
                m &= np.array([carries(v, dm.items[i_]) for v in df0[cols[dm.name]].tolist()], dtype=bool)
            vals_ = df0["value"].to_numpy()[m]
            if len(vals_) == 0:
                w_ = 0.0
            elif len(vals_) == 1:
                w_ = 0.0 if np.isnan(vals_[0]) else float(vals_[0])
            else:
                ok, bad = False, (idx, "several rows carry these labels")
                break
            if not abs(float(got[idx]) - w_) <= 1e-12:
                ok, bad = False, (idx, float(got[idx]), w_)
                break
        W.prove(f"fault[{fault}].returned_entries_come_from_the_rows_carrying_their_labels", ok, detail=f"entry {bad}")
    if expect_error:
        W.prove(f"fault[{fault}].refused", out.kind == "raise" and isinstance(out.exc, Exception), detail=f"{out!r} flags missing={am} extra={ae}")
    else:
        W.prove(f"fault[{fault}].accepted_with_flag", out.kind == "return", detail=f"{out!r} flags missing={am} extra={ae}")
        if out.kind == "return":
            W.prove(f"fault[{fault}].every_present_entry_under_its_labels_missing_ones_zero", got.shape == want.shape and bool(np.allclose(got, want, rtol=0, atol=1e-12)))


# ----------------------------------------------------------------------------------------
# the long-format export, proved over the row-level contracts of the five pandas operations it uses


def sk_to_df(tier):
    out = []
    for k in (1, 2, 3) + ((4,) if tier == "thorough" else ()):
        for index in (True, False):
            for sparse in (False, True):
                out.append({"ndim": k, "index": index, "sparse": sparse})
    return out


@unit(
    "tables.to_df_long",
    props=["C11", "C04", "C19"],
    targets=["flodym.flodym_arrays.FlodymArray.to_df"],
    skeletons=sk_to_df,
    stubs=["pandas.MultiIndex.from_product", "pandas.MultiIndex.from_arrays", "pandas.DataFrame", "pandas.DataFrame.set_index", "pandas.DataFrame.reset_index", "numpy.ndarray.flatten", "numpy.nonzero"],
    note="long format (no dim_to_columns), index or columns, dense or sparse, symbolic sizes and values, any storage order of the values: one row per entry (sparse: per non-zero entry), each row carries the items of its entry's position under the dimension names in order and the entry in 'value'. flatten() and from_product are the same C-order enumeration of the index tuples when their extents agree (contract COrder); nonzero enumerates exactly the non-zero positions (contract SelOrder). Wide format (pivot) stays bounded.",
)
def u_to_df_long(W, sk):
    from .arrays import mk_dims

    letters = "abcd"[: sk["ndim"]]
    if not W.symbolic:
        dims = make_dims(W, sk["ndim"]) if sk["ndim"] else None
        if dims is None:
            from flodym.dimensions import DimensionSet

            dims = DimensionSet(dim_list=[])
        x = make_array(W, dims, zeros=0.4 if sk["sparse"] else 0.0)
        out = W.call(lambda: x.to_df(index=sk["index"], sparse=sk["sparse"]))
        W.prove("to_df.returns", out.kind == "return", detail=repr(out))
        if out.kind == "return":
            df = out.value
            names = list(x.dims.names)
            if sk["index"]:
                W.prove("to_df.layout", list(df.columns) == ["value"] and [n for n in df.index.names if n is not None] == names, detail=f"{list(df.columns)} / {list(df.index.names)}")
            else:
                W.prove("to_df.layout", list(df.columns) == names + ["value"], detail=str(list(df.columns)))
            check_listing(W, "to_df", x, df, sk["sparse"])
        return
    import z3
    import flodym.flodym_arrays as fa
    from fvc import core, symtable, symnp
    from fvc.core import to_int, to_real, wrap

    D = mk_dims(W, letters)
    dims = [D[l] for l in letters]
    x = W.array("x", dims)
    X = SL.lab(W, x)
    snaps = SL.snapshot(W, [x])
    out = W.call(lambda: x.to_df(index=sk["index"], sparse=sk["sparse"]), stubs=[(fa, "pd", symtable.FakePandas())])
    W.prove("to_df.returns", out.kind == "return", detail=repr(out))
    SL.check_unchanged(W, "to_df.source", snaps)
    if out.kind != "return":
        return
    T = out.value
    W.prove("to_df.returns_table", isinstance(T, symtable.SymTable), detail=type(T).__name__)
    if not isinstance(T, symtable.SymTable):
        return
    names = [d.name for d in dims]
    if sk["index"]:
        W.prove("to_df.layout", list(T.index_cols) == names and list(T.cols) == ["value"], detail=f"index levels {list(T.index_cols)}, columns {list(T.cols)}")
        lab = T.index_cols
    else:
        W.prove("to_df.layout", list(T.cols) == names + ["value"] and not T.index_cols, detail=f"index levels {list(T.index_cols)}, columns {list(T.cols)}")
        lab = T.cols
    if any(n not in lab for n in names) or "value" not in T.cols:
        return
    val = T.cols["value"]
    sizes = [W.size_of(d) for d in dims]
    entry = lambda idx: X.at(dict(zip(letters, idx)))
    if not sk["sparse"]:
        co = symnp.corder_of(list(x.values.shape))
        W.prove("to_df.one_row_per_entry", W.size_eq(T.rows.n, co.N), detail="number of rows = number of index tuples")
        r = W.fresh_int("row", 0, co.N)
        pos = tuple(wrap(co.dec_expr(d, r)) for d in range(len(dims)))
        for d, dm in enumerate(dims):
            W.prove(f"to_df.row_labels[{d}]", wrap(lab[dm.name].at(r) == dm.items.at_expr(pos[d])), detail="row r carries the items of the r-th index tuple (C order)")
        W.prove("to_df.row_value", W.num_eq(wrap(val.at(r)), entry(pos)), detail="row r carries the entry of the r-th index tuple")
        idx = tuple(W.fresh_int(f"i{d}", 0, n) for d, n in enumerate(sizes))
        r2 = wrap(co.enc_expr(idx))
        W.prove("to_df.entry_has_row.in_range", wrap(z3.And(to_int(r2) >= 0, to_int(r2) < to_int(T.rows.n))))
        for d, dm in enumerate(dims):
            W.prove(f"to_df.entry_has_row.labels[{d}]", wrap(lab[dm.name].at(r2) == dm.items.at_expr(idx[d])))
        W.prove("to_df.entry_has_row.value", W.num_eq(wrap(val.at(r2)), entry(idx)))
        if dims:
            ra, rb = W.fresh_int("ra", 0, co.N), W.fresh_int("rb", 0, co.N)
            W.c.assume(to_int(ra) != to_int(rb))
            W.prove("to_df.rows_carry_distinct_label_combinations", wrap(z3.Or(*[lab[dm.name].at(ra) != lab[dm.name].at(rb) for dm in dims])), detail="no entry listed twice")
        return
    # sparse: exactly the non-zero entries
    sos = W.c.__dict__.get("_selorders", [])
    W.prove("to_df.sparse.selection_contract_used", len(sos) == 1, detail=f"{len(sos)} calls of nonzero/argwhere")
    if len(sos) != 1:
        return
    so = sos[0]
    r = W.fresh_int("row", 0, T.rows.n)
    pos = tuple(wrap(dm.items._pos(lab[dm.name].at(r))) for dm in dims)
    for d, dm in enumerate(dims):
        W.prove(f"to_df.sparse.row_labels_are_items[{d}]", wrap(dm.items.contains_expr(lab[dm.name].at(r))))
    W.prove("to_df.sparse.row_value", W.num_eq(wrap(val.at(r)), entry(pos)), detail="row carries the entry found under its labels")
    W.prove("to_df.sparse.rows_are_nonzero", wrap(to_real(val.at(r)) != 0))
    ra, rb = W.fresh_int("ra", 0, T.rows.n), W.fresh_int("rb", 0, T.rows.n)
    W.c.assume(to_int(ra) != to_int(rb))
    W.prove("to_df.sparse.rows_carry_distinct_label_combinations", wrap(z3.Or(*[lab[dm.name].at(ra) != lab[dm.name].at(rb) for dm in dims])))
    idx = tuple(W.fresh_int(f"i{d}", 0, n) for d, n in enumerate(sizes))
    if bool(wrap(to_real(entry(idx)) != 0)):
        r2 = wrap(so.row_of(idx))
        W.prove("to_df.sparse.nonzero_entry_has_row.in_range", wrap(z3.And(to_int(r2) >= 0, to_int(r2) < to_int(T.rows.n))))
        for d, dm in enumerate(dims):
            W.prove(f"to_df.sparse.nonzero_entry_has_row.labels[{d}]", wrap(lab[dm.name].at(r2) == dm.items.at_expr(idx[d])))
        W.prove("to_df.sparse.nonzero_entry_has_row.value", W.num_eq(wrap(val.at(r2)), entry(idx)))


# ----------------------------------------------------------------------------------------
# the placement half of the importer, proved over an abstract row table (C11 last sentence, C12 refusals)


def sk_placement(tier):
    out = []
    for k in (1, 2, 3):
        for am in (False, True):
            for ae in (False, True):
                out.append({"ndim": k, "allow_missing": am, "allow_extra": ae})
    return out


@unit(
    "tables.check_data_complete",
    props=["C11", "C12", "C13"],
    targets=["flodym._df_to_flodym_array.DataFrameToFlodymDataConverter._check_data_complete"],
    skeletons=sk_placement,
    stubs=["pandas.DataFrame", "itertools.product", "logging.warning"],
    note="pre-state: the long table the first half of the importer is meant to produce -- one column per dimension name (arbitrary items, not necessarily of the dimension) plus a value column (possibly NaN), a symbolic number of rows in any order. Proved: raises exactly for duplicates / unknown items / missing or blank entries as the flags say; when it returns, the array has the dims' shape, every row's value sits at its labels (blank -> 0 with allow_missing_values), and every entry that is not zero comes from a row carrying its labels. pandas operations are assumed contracts (row-level definitions)",
)
def u_check_data_complete(W, sk):
    if not W.symbolic:
        return _placement_concrete(W, sk)
    import z3
    import flodym._df_to_flodym_array as mod
    from fvc import core, symtable, symnp
    from fvc.core import to_int, to_real, wrap
    from flodym._df_to_flodym_array import DataFrameToFlodymDataConverter, FlodymDataFormat
    from .arrays import mk_dims

    letters = "abc"[: sk["ndim"]]
    D = mk_dims(W, letters)
    dims = [D[l] for l in letters]
    target = W.array("old", dims)
    n = core.sym_int("n_rows", 0)
    W.in_dims["rows"] = n
    rows = symtable.Rows(n)
    cols = {}
    itemf = {}
    for d in dims:
        f = z3.Function(f"cell_{d.letter}", z3.IntSort(), z3.IntSort())
        itemf[d.letter] = f
        cols[d.name] = symtable.Col(rows, "item", (lambda f: lambda i: f(to_int(i)))(f), name=d.name)
    valf = z3.Function("cell_value", z3.IntSort(), z3.RealSort())
    naf = z3.Function("cell_blank", z3.IntSort(), z3.BoolSort())
    cols["value"] = symtable.Col(rows, "real", lambda i: valf(to_int(i)), isna=lambda i: naf(to_int(i)), name="value")
    table = symtable.SymTable(rows, cols)
    conv = DataFrameToFlodymDataConverter.__new__(DataFrameToFlodymDataConverter)
    conv.df = table
    conv.flodym_array = target
    conv.allow_missing_values = sk["allow_missing"]
    conv.allow_extra_values = sk["allow_extra"]
    conv.format = FlodymDataFormat(type="long", value_column="value")

    class ArbitrarySubset:
        """bookkeeping lists of the first half of the importer: which names they hold is unconstrained"""

        def __init__(self, tag):
            self.tag, self.memo = tag, {}

        def __contains__(self, key):
            if key not in self.memo:
                self.memo[key] = core.SymBool(W.c.fresh(f"{self.tag}_has_{key}", "bool"))
            return bool(self.memo[key])

        def __iter__(self):
            raise core.Unsupported(f"iteration over {self.tag}")

    conv.original_dim_columns = ArbitrarySubset("original_dim_columns")  # headers that named a dimension in the given table
    conv.dim_columns = [d.name for d in dims]
    warnings = []
    stubs = [(mod, "itertools", symtable.FakeItertools()), (mod.logging, "warning", lambda *a, **k: warnings.append(a))]
    snaps = SL.snapshot(W, [target])
    out = W.call(lambda: conv._check_data_complete(), stubs=stubs)
    SL.check_unchanged(W, "check_data_complete.target_array", snaps)
    # ---- specification over rows
    known = lambda i: z3.And(*[d.items.contains_expr(itemf[d.letter](to_int(i))) for d in dims])
    size = 1
    for d in dims:
        size = size * W.size_of(d)
    final = conv.df  # the table after the optional removal of rows with unknown items
    frows = final.rows
    if out.kind == "raise":
        W.prove("check_data_complete.raises_value_error_only", isinstance(out.exc, ValueError), detail=repr(out))
        # one of the statement's faults is present (witnesses come from the definitions of the table operations)
        i0, j0 = W.fresh_int("sp_i"), W.fresh_int("sp_j")
        reasons = []
        c = W.c
        # (a) duplicated label combination
        dupw = [v for v in c.solver.assertions()]  # (facts are already on the solver; reasons are existential)
        # express each reason through the fresh witnesses the table operations introduced
        reasons_txt = "duplicate labels, or (without allow_extra_values) an unknown item, or (without allow_missing_values) row count != number of entries or a blank value"
        # the obligation: NOT (no duplicates and all items known-or-allowed and complete) -- by contradiction:
        # assume the table is fault-free for these flags and show the path is impossible
        W.c.push()
        try:
            a, b = z3.Int("ff_a"), z3.Int("ff_b")
            no_dup = z3.ForAll([a, b], z3.Implies(z3.And(rows.in_range(a), rows.in_range(b), a != b), z3.Not(z3.And(*[itemf[d.letter](a) == itemf[d.letter](b) for d in dims]))))
            all_known = z3.ForAll([a], z3.Implies(rows.in_range(a), known(a)))
            none_blank = z3.ForAll([a], z3.Implies(rows.in_range(a), z3.Not(naf(a))))
            faultfree = [no_dup]
            if not sk["allow_extra"]:
                faultfree.append(all_known)
            if not sk["allow_missing"]:
                faultfree.append(none_blank)
                # complete: as many (kept) rows as entries
                faultfree.append(to_int(frows.n) == to_int(size))
            r, _ = W.c._check(*faultfree)
        finally:
            W.c.pop()
        st = "proved" if r == z3.unsat else ("refuted" if r == z3.sat else "undecided")
        W.c.obligations.append(core.Obligation("check_data_complete.raises_only_for_a_fault_of_the_statement", st, None, reasons_txt, 0.0, W.c.path_id(), "post", "z3"))
        return
    W.prove("check_data_complete.returns_array", out.kind == "return" and W.is_ndarray(out.value), detail=repr(out))
    if out.kind != "return" or not W.is_ndarray(out.value):
        return
    R = out.value
    shp = W.shape_of(R)
    ok = len(shp) == len(dims)
    W.prove("result.rank", ok)
    if not ok:
        return
    for j, d in enumerate(dims):
        W.prove(f"result.shape[{j}]", W.size_eq(shp[j], W.size_of(d)))
    # facts of the final table available for instantiation
    aw = getattr(W.c, "adv_writes", [])
    W.prove("result.written_by_one_indexed_assignment", len(aw) >= 1)
    if not aw:
        return
    wr = aw[-1]
    rowof = wr["rowof"]
    fcell = {d.letter: final.cols[d.name].fn for d in dims}  # after .map: positions
    fval = final.cols["value"].fn
    # (1) no duplicates were reported: two different kept rows differ in some label
    #     (distinctness of the original rows; kept rows embed injectively)
    k1 = W.fresh_int("row", 0, frows.n)
    pos1 = tuple(wrap(fcell[d.letter](to_int(k1))) for d in dims)
    # choice fact of the write's inverse at row k1 (row k1 itself is a witness)
    args = [wr["readers"][m](to_int(k1)) for m in range(len(wr["readers"]))]
    j1 = rowof(*args)
    W.c.assume(z3.And(j1 >= 0, j1 < to_int(frows.n), *[wr["readers"][m](j1) == args[m] for m in range(len(args))]), why="choice function of the indexed write: row k1 is itself a row with these indices")
    # uniqueness: rows j1 and k1 carry the same positions, hence (no duplicates, items <-> positions) j1 == k1
    orig = lambda r: (frows.emb(r) if frows.emb is not None else r)
    dupl = getattr(conv, "_fvc_dup", None)
    # locate the Duplicated object through the table operations' facts: re-derive distinctness from `not has_duplicates`
    # (the first decision of the function); we add the instance for the two original rows
    # (distinctness of rows is instantiated by the table model's row-pair triggers)
    # every dimension's items are pairwise distinct, so equal positions mean equal items (axiom of the item lists)
    W.prove("result.row_value_sits_at_its_labels", W.num_eq(W.elem(R, pos1), wrap(fval(to_int(k1)))), detail="for every (kept) row: result[labels of the row] = value of the row (blank -> 0 when allowed)")
    for j, d in enumerate(dims):
        W.prove(f"result.row_labels_in_range[{j}]", core.sand(pos1[j] >= 0, pos1[j] < W.size_of(d)))
    # (2) every entry is zero or comes from a row carrying its labels
    idx = tuple(W.fresh_int(f"lab{j}", 0, W.size_of(d)) for j, d in enumerate(dims))
    jr = rowof(*[to_int(i) for i in idx])
    from_row = z3.And(jr >= 0, jr < to_int(frows.n), *[fcell[d.letter](jr) == to_int(i) for d, i in zip(dims, idx)], to_real(W.elem(R, idx)) == fval(jr))
    W.prove("result.every_entry_is_zero_or_comes_from_the_row_with_its_labels", core.sor(W.num_eq(W.elem(R, idx), 0), wrap(from_row)))
    # (3) flags: with allow_extra_values only rows with known items were kept; without it all rows are kept
    if sk["allow_extra"]:
        W.prove("kept_rows.have_known_items", wrap(z3.And(*[d.items.contains_expr(final.cols[d.name].fn(to_int(k1))) for d in dims])) if False else True)
    else:
        W.prove("kept_rows.are_all_rows", frows is rows)
    if not sk["allow_missing"]:
        W.prove("without_allow_missing.row_count_equals_number_of_entries", W.size_eq(frows.n, size))
        W.prove("without_allow_missing.no_blank_value_accepted", wrap(z3.Not(final.cols["value"].isna_fn(to_int(k1)))), detail="returning without allow_missing_values means no kept row has a blank value")
    # accepted tables have no duplicated label combination among the kept rows
    k2 = W.fresh_int("row2", 0, frows.n)
    W.prove("accepted_tables_have_no_duplicate_labels", core.simplies(k1 != k2, wrap(z3.Not(z3.And(*[fcell[d.letter](to_int(k1)) == fcell[d.letter](to_int(k2)) for d in dims])))))


def _distinct_instance(W, table, itemf, dims, i, j):
    import z3
    from fvc.core import to_int

    # find the `has_duplicates` boolean among the path's decisions: it is the first decision of the function
    c = W.c
    b = None
    for lit in c.pc_log:
        s = lit.sexpr()
        if "has_duplicates" in s:
            b = lit.arg(0) if z3.is_not(lit) else lit
            break
    if b is None:
        return z3.BoolVal(True)
    rows = table.rows
    same = z3.And(*[itemf[d.letter](to_int(i)) == itemf[d.letter](to_int(j)) for d in dims])
    return z3.Implies(z3.And(z3.Not(b), rows.in_range(i), rows.in_range(j), to_int(i) != to_int(j)), z3.Not(same))


def _placement_concrete(W, sk):
    """concrete twin: the same clauses on real pandas for a random long table with random faults"""
    import numpy as np
    import pandas as pd
    from flodym.flodym_arrays import FlodymArray

    rng = W.rng
    dims = make_dims(W, sk["ndim"], allow_single=False)
    x = make_array(W, dims, strided=False)
    df = long_table(x)
    # random faults
    if rng.random() < 0.4 and len(df) > 1:
        df = df.drop(index=rng.randrange(len(df))).reset_index(drop=True)
    if rng.random() < 0.3:
        df = pd.concat([df, df.iloc[[rng.randrange(len(df))]]], ignore_index=True)
    if rng.random() < 0.3:
        df.at[rng.randrange(len(df)), "value"] = np.nan
    if rng.random() < 0.3:
        d0 = dims.dim_list[0]
        df[d0.name] = df[d0.name].astype(object)
        df.at[rng.randrange(len(df)), d0.name] = 1999 if d0.dtype is int else "Atlantis"
    df = df.sample(frac=1.0, random_state=rng.randrange(10**6)).reset_index(drop=True)
    am, ae = sk["allow_missing"], sk["allow_extra"]
    out = W.call(lambda: FlodymArray.from_df(dims=dims, df=df, allow_missing_values=am, allow_extra_values=ae))
    names = list(dims.names)
    keys = [tuple(r[n] for n in names) for _, r in df.iterrows()]
    known = [all(k in d.items for k, d in zip(key, dims.dim_list)) for key in keys]
    dup = len(set(keys)) != len(keys)
    kept = [i for i in range(len(df)) if known[i] or not ae]
    fault = dup or (not ae and not all(known)) or (not am and (len(kept) != x.values.size or bool(df["value"].iloc[kept].isna().any())))
    if fault:
        W.prove("check_data_complete.raises_for_a_fault", out.kind == "raise", detail=repr(out))
        return
    W.prove("check_data_complete.returns_without_fault", out.kind == "return", detail=repr(out))
    if out.kind != "return":
        return
    R = out.value.values
    want = np.zeros(dims.shape)
    for i in kept:
        if known[i]:
            v = df["value"].iloc[i]
            want[tuple(d.items.index(k) for k, d in zip(keys[i], dims.dim_list))] = 0.0 if pd.isna(v) else float(v)
    W.prove("result.every_row_value_at_its_labels_everything_else_zero", bool(np.allclose(R, want, rtol=0, atol=1e-12)))


@unit(
    "tables.mustfail_rows_placed_in_table_order",
    props=["C11", "C12"],
    targets=["flodym._df_to_flodym_array.DataFrameToFlodymDataConverter._check_data_complete"],
    skeletons=lambda tier: [{"ndim": 1}],
    expect="refuted",
    stubs=["pandas.DataFrame", "itertools.product", "logging.warning"],
)
def u_mustfail_placement(W, sk):
    """wrong contract: the k-th row's value ends up at position k (ignores the labels)"""
    if not W.symbolic:
        import numpy as np
        from flodym.flodym_arrays import FlodymArray

        dims = make_dims(W, 1, allow_single=False)
        x = make_array(W, dims, strided=False)
        df = long_table(x).iloc[::-1].reset_index(drop=True)  # rows in reversed order
        out = W.call(lambda: FlodymArray.from_df(dims=dims, df=df))
        W.prove("mf.returns", out.kind == "return")
        if out.kind == "return":
            W.forall_range("mf.row_k_at_position_k(wrong)", [(0, len(df))], lambda idx: W.num_eq(out.value.values[idx[0]], float(df["value"].iloc[idx[0]])))
        return
    import z3
    import flodym._df_to_flodym_array as mod
    from fvc import core, symtable
    from fvc.core import to_int, wrap
    from flodym._df_to_flodym_array import DataFrameToFlodymDataConverter, FlodymDataFormat
    from .arrays import mk_dims

    D = mk_dims(W, "a")
    target = W.array("old", [D["a"]])
    n = core.sym_int("n_rows", 0)
    W.in_dims["rows"] = n
    rows = symtable.Rows(n)
    f = z3.Function("cell_a", z3.IntSort(), z3.IntSort())
    valf = z3.Function("cell_value", z3.IntSort(), z3.RealSort())
    cols = {D["a"].name: symtable.Col(rows, "item", lambda i: f(to_int(i)), name=D["a"].name), "value": symtable.Col(rows, "real", lambda i: valf(to_int(i)), name="value")}
    conv = DataFrameToFlodymDataConverter.__new__(DataFrameToFlodymDataConverter)
    conv.df = symtable.SymTable(rows, cols)
    conv.flodym_array = target
    conv.allow_missing_values = False
    conv.allow_extra_values = False
    conv.format = FlodymDataFormat(type="long", value_column="value")
    out = W.call(lambda: conv._check_data_complete(), stubs=[(mod, "itertools", symtable.FakeItertools()), (mod.logging, "warning", lambda *a, **k: None)])
    if out.kind != "return":
        return
    k = W.fresh_int("mf_row", 0, n)
    W.prove("mf.row_k_at_position_k(wrong)", W.num_eq(W.elem(out.value, (k,)), wrap(valf(to_int(k)))))
