"""Contracts for FlodymArray arithmetic, reductions, casts, constructors (C01, C07, C04, C13, C15).

Top-level postconditions are label-level and transcribed from the property statements.
Skeleton: x stored over a,b,c,.. (WLOG by renaming); y any arrangement of shared and new letters
(every storage order of every overlap pattern); sizes and entries symbolic.
"""
from __future__ import annotations

import itertools

from fvc import core, speclib as SL
from fvc.units import unit
from .dimensions import operand_pairs, ALPHA, NEW, _rank


def mk_dims(W, letters, lo=1, numeric_ok=False):
    return {l: W.dim(l, lo=lo, numeric_ok=numeric_ok) for l in letters}


def operands(W, sk, int_ok=False):
    """int_ok: both arrays are only read by the unit (they may be integer-typed on the concrete 'integer' runs)"""
    D = mk_dims(W, sorted(set(sk["x"]) | set(sk["y"])))
    x = W.array("x", [D[l] for l in sk["x"]], int_ok=int_ok)
    if sk.get("alias"):
        return D, x, x  # both operands are the very same object
    y = W.array("y", [D[l] for l in sk["y"]], int_ok=int_ok)
    return D, x, y


def sk_pairs(tier, quick=3, thorough=4):
    return [{"x": x, "y": y} for x, y in operand_pairs(_rank(tier, quick, thorough))]


# ----------------------------------------------------------------------------------------
# C01 binary operations between arrays

INTERSECT_OPS = {
    "add": (lambda x, y: x + y, lambda a, b: a + b),
    "sub": (lambda x, y: x - y, lambda a, b: a - b),
    "minimum": (lambda x, y: x.minimum(y), None),
    "maximum": (lambda x, y: x.maximum(y), None),
}
UNION_OPS = {
    "mul": (lambda x, y: x * y, lambda a, b: a * b),
    "truediv": (lambda x, y: x / y, None),
}


def _min(W):
    if W.symbolic:
        return lambda a, b: core.site(a <= b, a, b)
    return lambda a, b: a if a <= b else b


def _max(W):
    if W.symbolic:
        return lambda a, b: core.site(a >= b, a, b)
    return lambda a, b: a if a >= b else b


def spec_intersect_op(W, op, x, y):
    X, Y = SL.lab(W, x), SL.lab(W, y)
    K = tuple(l for l in X.letters if l in Y.letters)
    f = {"minimum": _min(W), "maximum": _max(W)}.get(op) or INTERSECT_OPS[op][1]
    mx, my = SL.marg(X, K), SL.marg(Y, K)
    return SL.Lab(W, K, {l: X.dims[l] for l in K}, lambda asg: f(mx.at(asg), my.at(asg)))


def spec_union_op(W, op, x, y):
    X, Y = SL.lab(W, x), SL.lab(W, y)
    U = X.letters + tuple(l for l in Y.letters if l not in X.letters)
    dims = {l: (X.dims[l] if l in X.letters else Y.dims[l]) for l in U}
    f = UNION_OPS[op][1] or W.div
    return SL.Lab(W, U, dims, lambda asg: f(X.at(asg), Y.at(asg))), Y


def sk_binop(tier):
    out = []
    import os

    # rank 5 only when C01 itself is checked thoroughly (20 370 jobs, ~13 min on 16 cores); C04/C13/C15 reuse rank <= 4
    for p in sk_pairs(tier, 3, 5 if os.environ.get("FVC_PROP") == "C01" else 4):
        for op in list(INTERSECT_OPS) + list(UNION_OPS):
            out.append({"op": op, **p})
            if p["x"] == p["y"] and len(p["x"]) <= 3:
                out.append({"op": op, **p, "alias": True})  # x op x
    return out


@unit(
    "arrays.binop",
    props=["C01", "C04", "C13", "C15"],
    targets=[
        "flodym.flodym_arrays.FlodymArray.__add__",
        "flodym.flodym_arrays.FlodymArray.__sub__",
        "flodym.flodym_arrays.FlodymArray.__mul__",
        "flodym.flodym_arrays.FlodymArray.__truediv__",
        "flodym.flodym_arrays.FlodymArray.minimum",
        "flodym.flodym_arrays.FlodymArray.maximum",
        "flodym.flodym_arrays.FlodymArray._prepare_other",
        "flodym.flodym_arrays.FlodymArray.sum_values_to",
        "flodym.flodym_arrays.FlodymArray.copy_dims",
        "flodym.flodym_arrays.FlodymArray.validate_values",
        "flodym.flodym_arrays.FlodymArray._check_value_format",
        "flodym.dimensions.DimensionSet.intersect_with",
        "flodym.dimensions.DimensionSet.union_with",
    ],
    skeletons=sk_binop,
    inlined=["flodym.flodym_arrays.FlodymArray._tuple_to_letters", "flodym.flodym_arrays.FlodymArray._get_dim_letter", "flodym.dimensions.DimensionSet.copy"],
    note="x/y is claimed where the divisor entry is non-zero (the code multiplies by the reciprocal)",
)
def u_binop(W, sk):
    D, x, y = operands(W, sk, int_ok=True)
    snaps = SL.snapshot(W, [x, y])
    op = sk["op"]
    if op in INTERSECT_OPS:
        out = W.call(lambda: INTERSECT_OPS[op][0](x, y))
        SL.check_same_array(W, op, out, spec_intersect_op(W, op, x, y), fresh_from=[x, y], own_dims_from=[x, y])
    else:
        out = W.call(lambda: UNION_OPS[op][0](x, y))
        exp, Y = spec_union_op(W, op, x, y)
        hyp = None
        if op == "truediv":
            hyp = (lambda asg: Y.at(asg) != 0)
        SL.check_same_array(W, op, out, exp, fresh_from=[x, y], own_dims_from=[x, y], hyp=hyp)
    SL.check_unchanged(W, op, snaps)


# ----------------------------------------------------------------------------------------
# numbers on either side, unary operations


def sk_rank(tier, quick=3, thorough=4):
    return [{"x": ALPHA[:k]} for k in range(_rank(tier, quick, thorough) + 1)]


@unit(
    "arrays.scalar_and_unary",
    props=["C01", "C13", "C15"],
    targets=[
        "flodym.flodym_arrays.FlodymArray._prepare_other",
        "flodym.flodym_arrays.FlodymArray.__radd__",
        "flodym.flodym_arrays.FlodymArray.__rsub__",
        "flodym.flodym_arrays.FlodymArray.__rmul__",
        "flodym.flodym_arrays.FlodymArray.__rtruediv__",
        "flodym.flodym_arrays.FlodymArray.__neg__",
        "flodym.flodym_arrays.FlodymArray.__abs__",
        "flodym.flodym_arrays.FlodymArray.abs",
        "flodym.flodym_arrays.FlodymArray.sign",
        "flodym.flodym_arrays.FlodymArray.apply",
        "flodym.flodym_arrays.FlodymArray.__pow__",
    ],
    skeletons=lambda tier: sk_rank(tier) + [{"x": ALPHA[:k], "cls": c} for k in (1, 2) for c in ("Parameter", "StockArray")],
    note="x**c: the real power function is an uninterpreted symbol pow(base, exponent); cls: the operand is an instance of a subclass (a parameter, a stock array) -- results own their dimension set and values all the same",
)
def u_scalar(W, sk):
    import flodym.flodym_arrays as _fa

    D = mk_dims(W, sk["x"])
    x = W.array("x", [D[l] for l in sk["x"]], int_ok=True, cls=getattr(_fa, sk["cls"]) if sk.get("cls") else None)
    c = W.number("c")
    X = SL.lab(W, x)
    snaps = SL.snapshot(W, [x])
    mn, mx = _min(W), _max(W)

    def pw(a, b):
        if W.symbolic:
            return core.wrap(core.POW(core.to_real(a), core.to_real(b)))
        return a**b

    def sabs(a):
        return abs(a)

    def ssign(a):
        if W.symbolic:
            return core.site(a > 0, 1, core.site(a < 0, -1, 0))
        return float(a > 0) - float(a < 0)

    cases = [
        ("x+c", lambda: x + c, lambda a: a + c, None),
        ("c+x", lambda: c + x, lambda a: c + a, None),
        ("x-c", lambda: x - c, lambda a: a - c, None),
        ("c-x", lambda: c - x, lambda a: c - a, None),
        ("x*c", lambda: x * c, lambda a: a * c, None),
        ("c*x", lambda: c * x, lambda a: c * a, None),
        ("x/c", lambda: x / c, lambda a: W.div(a, c), lambda a: c != 0),
        ("c/x", lambda: c / x, lambda a: W.div(c, a), lambda a: a != 0),
        ("min(x,c)", lambda: x.minimum(c), lambda a: mn(a, c), None),
        ("max(x,c)", lambda: x.maximum(c), lambda a: mx(a, c), None),
        ("-x", lambda: -x, lambda a: -a, None),
        ("abs(x)", lambda: abs(x), sabs, None),
        ("x.abs()", lambda: x.abs(), sabs, None),
        ("x.sign()", lambda: x.sign(), ssign, None),
    ]
    if W.symbolic:
        cases.append(("x**c", lambda: x**c, lambda a: pw(a, c), None))
    for name, thunk, f, hyp in cases:
        out = W.call(thunk)
        exp = SL.Lab(W, X.letters, X.dims, (lambda f: lambda asg: f(X.at(asg)))(f))
        h = None if hyp is None else (lambda hyp: lambda asg: hyp(X.at(asg)))(hyp)
        SL.check_same_array(W, name, out, exp, fresh_from=[x], own_dims_from=[x], hyp=h)
    out = W.call(lambda: x + "1")
    SL.check_raises(W, "x+str", out, AssertionError)
    SL.check_unchanged(W, "scalar_and_unary", snaps)
    # history: in-place abs / sign on another array, then the out-of-place forms again (nothing may be carried over)
    z = W.array("z", [D[l] for l in sk["x"]])
    Z0 = SL.lab_of_values(W, z.values.copy(), [D[l] for l in sk["x"]])
    zd = z.dims
    out = W.call(lambda: z.abs(inplace=True))
    W.prove("z.abs(inplace).returns_none", out.kind == "return" and out.value is None, detail=repr(out))
    W.prove("z.abs(inplace).frame.dims_object", z.dims is zd, kind="frame")
    if SL.check_wf(W, "z.abs(inplace).target", z):
        Z = SL.lab(W, z)
        W.forall("z.abs(inplace).entries", Z.sizes(), lambda idx: W.num_eq(Z.at(dict(zip(Z.letters, idx))), sabs(Z0.at(dict(zip(Z.letters, idx))))))
    zsn = SL.snapshot(W, [z, x])
    for name, thunk, f in (("x.abs() after an in-place call", lambda: x.abs(), sabs), ("x.sign() after an in-place call", lambda: x.sign(), ssign)):
        out = W.call(thunk)
        exp = SL.Lab(W, X.letters, X.dims, (lambda f: lambda asg: f(X.at(asg)))(f))
        SL.check_same_array(W, name, out, exp, fresh_from=[x, z], own_dims_from=[x, z])
    SL.check_unchanged(W, "after_inplace", zsn)


@unit(
    "arrays.pow",
    props=["C01", "C04", "C13"],
    targets=["flodym.flodym_arrays.FlodymArray.__pow__", "flodym.flodym_arrays.FlodymArray.cast_to", "flodym.flodym_arrays.FlodymArray.cast_values_to"],
    skeletons=sk_pairs,
)
def u_pow(W, sk):
    D, x, y = operands(W, sk)
    snaps = SL.snapshot(W, [x, y])
    out = W.call(lambda: x**y)
    X, Y = SL.lab(W, x), SL.lab(W, y)
    if any(l not in X.letters for l in Y.letters):
        SL.check_raises(W, "pow", out, ValueError)
    else:
        if W.symbolic:
            f = lambda a, b: core.wrap(core.POW(core.to_real(a), core.to_real(b)))
        else:
            f = lambda a, b: float(a) ** float(b)
        if W.symbolic:
            exp = SL.Lab(W, X.letters, X.dims, lambda asg: f(X.at(asg), Y.at(asg)))
            SL.check_same_array(W, "pow", out, exp, fresh_from=[x, y], own_dims_from=[x, y])
        else:
            import math

            def ok(asg):
                try:
                    v = f(X.at(asg), Y.at(asg))
                except (ZeroDivisionError, OverflowError):
                    return None
                return v if isinstance(v, float) and math.isfinite(v) else None

            exp = SL.Lab(W, X.letters, X.dims, lambda asg: ok(asg) if ok(asg) is not None else 0.0)
            SL.check_same_array(W, "pow", out, exp, fresh_from=[x, y], own_dims_from=[x, y], hyp=lambda asg: ok(asg) is not None)
    SL.check_unchanged(W, "pow", snaps)


# ----------------------------------------------------------------------------------------
# C07 sums, casts, shares, cumsum


def ordered_subsets(letters, max_len=None):
    n = len(letters)
    for m in range(0, (n if max_len is None else min(n, max_len)) + 1):
        for sel in itertools.permutations(letters, m):
            yield "".join(sel)


def naming(dims, style):
    out = []
    for j, d in enumerate(dims):
        s = style if style != "mixed" else ("letter", "name", "object")[j % 3]
        out.append(d.letter if s == "letter" else d.name if s == "name" else d)
    return tuple(out)


def _deep(tier, prop):
    """rank bound of the C07 units: 5 in the thorough tier when C07 itself is checked"""
    import os

    return _rank(tier, 3, 5 if os.environ.get("FVC_PROP") == prop else 4)


def sk_sum_to(tier):
    out = []
    for k in range(_deep(tier, "C07") + 1):
        x = ALPHA[:k]
        for K in ordered_subsets(x):
            for style in ("letter", "name", "object", "mixed"):
                if style != "letter" and not K:
                    continue
                if style == "mixed" and len(K) < 2:
                    continue
                out.append({"x": x, "K": K, "style": style})
            if K and k <= 3:
                # Dimension objects that are not the array's own: same letter and name, another item list (the time
                # or region dimension of another model) -- they name the array's dimension, nothing more
                out.append({"x": x, "K": K, "style": "foreign_object"})
    return out


@unit(
    "arrays.sum_to",
    props=["C07", "C04", "C13", "C15"],
    targets=[
        "flodym.flodym_arrays.FlodymArray.sum_to",
        "flodym.flodym_arrays.FlodymArray.sum_values_to",
        "flodym.flodym_arrays.FlodymArray.sum_values",
        "flodym.flodym_arrays.FlodymArray._tuple_to_letters",
        "flodym.flodym_arrays.FlodymArray._get_dim_letter",
        "flodym.dimensions.DimensionSet.get_subset",
    ],
    skeletons=sk_sum_to,
    note="sum_to over all dimensions may return memory shared with the source (transposing einsum): C15 does not list reductions among the independent results, so freshness of values is not claimed here",
)
def u_sum_to(W, sk):
    D = mk_dims(W, sk["x"])
    x = W.array("x", [D[l] for l in sk["x"]], int_ok=True)
    X = SL.lab(W, x)
    snaps = SL.snapshot(W, [x])
    if sk["style"] == "foreign_object":
        keys = tuple(W.dim(l, name=D[l].name, tag=f"{l}_foreign") for l in sk["K"])
    else:
        keys = naming([D[l] for l in sk["K"]], sk["style"])
    exp = SL.marg(X, sk["K"])
    out = W.call(lambda: x.sum_to(keys))
    if sk["style"] == "foreign_object" and out.kind == "return":
        W.prove("sum_to(foreign Dimension objects).result_has_the_arrays_own_dimensions", len(out.value.dims.dim_list) == len(sk["K"]) and all(a is b or (a.letter == b.letter and bool(a.items == b.items)) for a, b in zip(out.value.dims.dim_list, [D[l] for l in sk["K"]])), detail=str(out.value.dims.letters))
    SL.check_same_array(W, "sum_to", out, exp, fresh_from=[x], own_dims_from=[x], require_fresh=False)
    out = W.call(lambda: x.sum_values_to(keys))
    SL.check_raises if False else None
    W.prove("sum_values_to.returns", out.kind == "return", detail=repr(out))
    if out.kind == "return":
        SL.check_same_values(W, "sum_values_to", out.value, exp)
    if not sk["K"]:
        out = W.call(lambda: x.sum_values())
        W.prove("sum_values.returns", out.kind == "return", detail=repr(out))
        if out.kind == "return":
            tot = SL.marg(X, ())
            W.prove("sum_values.value", W.num_eq(out.value if not W.is_ndarray(out.value) else W.elem(out.value, ()), tot.at({})))
        out = W.call(lambda: x.sum_to())
        SL.check_same_array(W, "sum_to()", out, exp, own_dims_from=[x], require_fresh=False)
    out = W.call(lambda: x.sum_to(keys + ("q",)))
    SL.check_raises(W, "sum_to(unknown letter)", out, KeyError)
    out = W.call(lambda: x.sum_to(keys + ("NoSuchDimension",)))
    SL.check_raises(W, "sum_to(unknown name)", out, KeyError)
    # strings that are no letter and no name of a dimension, although they are made of the array's letters
    glued = "".join(sk["x"])
    for bad in ([glued] if len(glued) >= 2 else []) + [glued[:2] if len(glued) >= 3 else None, ""]:
        if bad is None:
            continue
        out = W.call(lambda: x.sum_to((bad,)))
        SL.check_raises(W, f"sum_to(key {bad!r} made of letters)", out, KeyError)
        out = W.call(lambda: x.sum_values_to((bad,)))
        SL.check_raises(W, f"sum_values_to(key {bad!r} made of letters)", out, KeyError)
    SL.check_unchanged(W, "sum_to", snaps)


def sk_sum_over(tier):
    out = []
    for k in range(_rank(tier, 3, 4) + 1):
        x = ALPHA[:k]
        for m in range(k + 1):
            for J in itertools.permutations(x, m):
                if tier == "quick" and list(J) != sorted(J) and m > 2:
                    continue
                for style in ("letter", "name", "object"):
                    if style != "letter" and not J:
                        continue
                    out.append({"x": x, "J": "".join(J), "style": style})
    return out


@unit(
    "arrays.sum_over",
    props=["C07", "C04", "C13"],
    targets=["flodym.flodym_arrays.FlodymArray.sum_over", "flodym.flodym_arrays.FlodymArray.sum_values_over"],
    skeletons=sk_sum_over,
)
def u_sum_over(W, sk):
    D = mk_dims(W, sk["x"])
    x = W.array("x", [D[l] for l in sk["x"]], int_ok=True)
    X = SL.lab(W, x)
    snaps = SL.snapshot(W, [x])
    keys = naming([D[l] for l in sk["J"]], sk["style"])
    K = tuple(l for l in sk["x"] if l not in sk["J"])
    exp = SL.marg(X, K)
    out = W.call(lambda: x.sum_over(keys))
    SL.check_same_array(W, "sum_over", out, exp, own_dims_from=[x], require_fresh=False)
    out = W.call(lambda: x.sum_values_over(keys))
    W.prove("sum_values_over.returns", out.kind == "return", detail=repr(out))
    if out.kind == "return":
        SL.check_same_values(W, "sum_values_over", out.value, exp)
    # grand total is preserved by any partial sum
    if out.kind == "return" and sk["J"] and K:
        part = SL.lab_of_values(W, out.value, [D[l] for l in K])
        W.prove("sum_over.grand_total_preserved", W.num_eq(SL.marg(part, ()).at({}), SL.marg(X, ()).at({})))
    out = W.call(lambda: x.sum_over(keys + ("q",)))
    SL.check_raises(W, "sum_over(unknown)", out, KeyError)
    glued = "".join(sk["x"])
    for bad in ([glued] if len(glued) >= 2 else []) + [glued[-2:] if len(glued) >= 3 else None, ""]:
        if bad is None:
            continue
        out = W.call(lambda: x.sum_over((bad,)))
        SL.check_raises(W, f"sum_over(key {bad!r} made of letters)", out, KeyError)
        out = W.call(lambda: x.sum_values_over((bad,)))
        SL.check_raises(W, f"sum_values_over(key {bad!r} made of letters)", out, KeyError)
    SL.check_unchanged(W, "sum_over", snaps)


def sk_cast(tier):
    # T = canonical letters (target), x = ordered selection from T (+ possibly a letter T lacks)
    out = []
    for t, xs in operand_pairs(_deep(tier, "C07")):
        out.append({"T": t, "x": xs})
    return out


@unit(
    "arrays.cast_to",
    props=["C07", "C04", "C13", "C15"],
    targets=["flodym.flodym_arrays.FlodymArray.cast_to", "flodym.flodym_arrays.FlodymArray.cast_values_to"],
    skeletons=sk_cast,
)
def u_cast(W, sk):
    D = mk_dims(W, sorted(set(sk["T"]) | set(sk["x"])))
    x = W.array("x", [D[l] for l in sk["x"]], int_ok=True)
    from .dimensions import mk_set

    T = mk_set(W, [D[l] for l in sk["T"]])
    tsnap = (T.dim_list, list(T.dim_list))
    X = SL.lab(W, x)
    snaps = SL.snapshot(W, [x])
    out = W.call(lambda: x.cast_to(T))
    if any(l not in sk["T"] for l in sk["x"]):
        SL.check_raises(W, "cast_to(target lacks a source dimension)", out, AssertionError)
    else:
        exp = SL.Lab(W, tuple(sk["T"]), {l: D[l] for l in sk["T"]}, lambda asg: X.at(asg))
        SL.check_same_array(W, "cast_to", out, exp, fresh_from=[x], own_dims_from=[x])
        if out.kind == "return":
            W.prove("cast_to.result_dims_not_target_object", out.value.dims is not T and out.value.dims.dim_list is not T.dim_list, kind="ownership")
            # summing back gives the original times the number of added label combinations
            back = W.call(lambda: out.value.sum_to(tuple(sk["x"])))
            n_added = 1
            for l in sk["T"]:
                if l not in sk["x"]:
                    n_added = n_added * W.size_of(D[l])
            exp2 = SL.Lab(W, X.letters, X.dims, lambda asg: X.at(asg) * n_added)
            SL.check_same_array(W, "cast_to.sum_back", back, exp2, require_fresh=False)
        v = W.call(lambda: x.cast_values_to(T))
        W.prove("cast_values_to.returns", v.kind == "return", detail=repr(v))
        if v.kind == "return":
            SL.check_same_values(W, "cast_values_to", v.value, exp)
            W.prove("cast_values_to.fresh_buffer", W.buffer_id(v.value) != W.buffer_id(x.values), kind="ownership")
    W.prove("cast_to.target_set_unchanged", len(T.dim_list) == len(tsnap[1]) and all(a is b for a, b in zip(T.dim_list, tsnap[1])), kind="frame")
    SL.check_unchanged(W, "cast_to", snaps)


def sk_shares(tier):
    out = []
    for k in range(_rank(tier, 3, 4) + 1):
        x = ALPHA[:k]
        for J in ordered_subsets(x):
            if tier == "quick" and len(J) > 2 and list(J) != sorted(J):
                continue
            out.append({"x": x, "J": J})
    return out


@unit(
    "arrays.get_shares_over",
    props=["C07", "C04", "C13"],
    targets=["flodym.flodym_arrays.FlodymArray.get_shares_over", "flodym.flodym_arrays.FlodymArray.sum_over", "flodym.flodym_arrays.FlodymArray.__truediv__"],
    skeletons=sk_shares,
    note="claimed where the total over the given dimensions is non-zero",
)
def u_shares(W, sk):
    D = mk_dims(W, sk["x"])
    x = W.array("x", [D[l] for l in sk["x"]], int_ok=True)
    X = SL.lab(W, x)
    snaps = SL.snapshot(W, [x])
    J = tuple(sk["J"])
    K = tuple(l for l in sk["x"] if l not in J)
    tot = SL.marg(X, K)
    out = W.call(lambda: x.get_shares_over(J))
    exp = SL.Lab(W, X.letters, X.dims, lambda asg: W.div(X.at(asg), tot.at(asg)))
    nz = lambda asg: tot.at(asg) != 0
    SL.check_same_array(W, "get_shares_over", out, exp, fresh_from=[x], own_dims_from=[x], hyp=nz)
    if out.kind == "return" and SL.check_wf(W, "shares", out.value):
        R = SL.lab(W, out.value)
        if R.letters == X.letters:
            # shares add up to one over J wherever the total is non-zero
            sumJ = SL.marg(R, K)

            def pred(idx):
                asg = dict(zip(K, idx))
                g = W.num_eq(sumJ.at(asg), 1)
                return core.simplies(nz(asg), g) if W.symbolic else ((not nz(asg)) or g)

            if J:
                W.forall("shares.add_up_to_one", [X.size(l) for l in K], pred)

            # multiplying back restores the array
            def pred2(idx):
                asg = dict(zip(X.letters, idx))
                g = W.num_eq(R.at(asg) * tot.at(asg), X.at(asg))
                return core.simplies(nz(asg), g) if W.symbolic else ((not nz(asg)) or g)

            W.forall("shares.multiply_back", X.sizes(), pred2)
    out = W.call(lambda: x.get_shares_over(J + ("q",)))
    SL.check_raises(W, "get_shares_over(unknown)", out, AssertionError)
    SL.check_unchanged(W, "get_shares_over", snaps)


def sk_cumsum(tier):
    out = []
    for k in range(1, _rank(tier, 3, 4) + 1):
        for j in range(k):
            for inplace in (False, True):
                out.append({"x": ALPHA[:k], "axis": j, "inplace": inplace})
    out += [{"x": "ab", "axis": 1, "inplace": False, "cls": c} for c in ("Parameter", "StockArray")]
    return out


@unit(
    "arrays.cumsum",
    props=["C07", "C13", "C04"],
    targets=["flodym.flodym_arrays.FlodymArray.cumsum", "flodym.flodym_arrays.FlodymArray.apply"],
    skeletons=sk_cumsum,
)
def u_cumsum(W, sk):
    import flodym.flodym_arrays as _fa

    D = mk_dims(W, sk["x"], numeric_ok=True)
    x = W.array("x", [D[l] for l in sk["x"]], int_ok=True, cls=getattr(_fa, sk["cls"]) if sk.get("cls") else None)
    X = SL.lab(W, x)
    fz = SL.Lab(W, X.letters, X.dims, (lambda vals, L: (lambda asg: W.elem(vals, tuple(asg[l] for l in L))))(x.values.copy(), X.letters))
    l = sk["x"][sk["axis"]]
    exp = SL.Lab(W, X.letters, X.dims, lambda asg: W.sum([(l, 0, asg[l] + 1)], lambda idx: fz.at({**asg, l: idx[0]})))
    if sk["inplace"]:
        dsnap = (x.dims, x.dims.dim_list, list(x.dims.dim_list))
        out = W.call(lambda: x.cumsum(l, inplace=True))
        W.prove("cumsum(inplace).returns_none", out.kind == "return" and out.value is None, detail=repr(out))
        W.prove("cumsum(inplace).dims_untouched", x.dims is dsnap[0] and x.dims.dim_list is dsnap[1] and all(a is b for a, b in zip(x.dims.dim_list, dsnap[2])), kind="frame")
        from fvc.harness import Outcome

        SL.check_same_array(W, "cumsum(inplace)", Outcome("return", x), exp, require_fresh=False)
    else:
        snaps = SL.snapshot(W, [x])
        out = W.call(lambda: x.cumsum(l))
        SL.check_same_array(W, "cumsum", out, exp, fresh_from=[x], own_dims_from=[x])
        SL.check_unchanged(W, "cumsum", snaps)
        out = W.call(lambda: x.cumsum("q"))
        SL.check_raises(W, "cumsum(unknown)", out, ValueError)


# ----------------------------------------------------------------------------------------
# must-fail guards


@unit(
    "arrays.mustfail_add_no_marginalisation",
    props=["C01"],
    targets=["flodym.flodym_arrays.FlodymArray.__add__"],
    skeletons=lambda tier: [{"x": "ab", "y": "a"}],
    expect="refuted",
)
def u_mustfail_add(W, sk):
    D, x, y = operands(W, sk)
    X, Y = SL.lab(W, x), SL.lab(W, y)
    out = W.call(lambda: x + y)
    # wrong spec: forget to sum x over b (takes entry b=0 instead)
    wrong = SL.Lab(W, ("a",), {"a": D["a"]}, lambda asg: X.at({**asg, "b": 0}) + Y.at(asg))
    SL.check_same_array(W, "add(wrong spec)", out, wrong)


@unit(
    "arrays.mustfail_mul_swapped_labels",
    props=["C01", "C04"],
    targets=["flodym.flodym_arrays.FlodymArray.__mul__"],
    skeletons=lambda tier: [{"x": "ab", "y": "ba"}],
    expect="refuted",
)
def u_mustfail_mul(W, sk):
    D, x, y = operands(W, sk)
    X, Y = SL.lab(W, x), SL.lab(W, y)
    out = W.call(lambda: x * y)
    # wrong spec: y matched by axis position instead of by label
    def swapped(asg):
        try:
            return X.at(asg) * Y.at({"b": asg["a"], "a": asg["b"]})
        except IndexError:
            return float("nan")  # (concrete dimensions of different lengths: the positional reading does not even exist)

    wrong = SL.Lab(W, ("a", "b"), {"a": D["a"], "b": D["b"]}, swapped)
    SL.check_same_array(W, "mul(wrong spec)", out, wrong, hyp=(lambda asg: W.size_eq(W.size_of(D["a"]), W.size_of(D["b"]))) if False else None)


@unit(
    "arrays.mustfail_sum_to_order",
    props=["C07"],
    targets=["flodym.flodym_arrays.FlodymArray.sum_to"],
    skeletons=lambda tier: [{"x": "abc", "K": "ca"}],
    expect="refuted",
)
def u_mustfail_sum(W, sk):
    D = mk_dims(W, sk["x"])
    x = W.array("x", [D[l] for l in sk["x"]])
    X = SL.lab(W, x)
    out = W.call(lambda: x.sum_to(("c", "a")))
    wrong = SL.marg(X, ("a", "c"))  # wrong: source order instead of requested order
    SL.check_same_array(W, "sum_to(wrong order)", out, wrong)


# ----------------------------------------------------------------------------------------
# constructors, factories, copy (C13, C15)


def sk_ctor(tier):
    out = []
    for k in range(0, _rank(tier, 3, 4) + 1):
        for case in ("none", "ndarray_same", "ndarray_free", "ndarray_rank-1", "ndarray_rank+1", "number", "bad_type"):
            if case == "ndarray_rank-1" and k == 0:
                continue
            out.append({"x": ALPHA[:k], "case": case})
        if k >= 1:
            out.append({"x": ALPHA[:k], "case": "repeated_letter_by_subset"})
            out.append({"x": ALPHA[:k], "case": "repeated_letter_by_expand"})
    return out


@unit(
    "arrays.constructor",
    props=["C13", "C15"],
    targets=["flodym.flodym_arrays.FlodymArray.copy_dims", "flodym.flodym_arrays.FlodymArray.validate_values", "flodym.flodym_arrays.FlodymArray._check_value_format"],
    skeletons=sk_ctor,
    note="constructor: None -> zeros; ndarray accepted iff its shape is exactly the dims' shape; a number only for 0 dimensions; the caller's DimensionSet is copied",
)
def u_ctor(W, sk):
    from flodym.flodym_arrays import FlodymArray
    from .dimensions import mk_set

    D = mk_dims(W, sk["x"])
    dims = [D[l] for l in sk["x"]]
    S = mk_set(W, dims)
    ssnap = (S.dim_list, list(S.dim_list))
    own = [W.size_of(d) for d in dims]
    k = len(dims)
    case = sk["case"]
    accepted = True
    v = None
    if case == "none":
        out = W.call(lambda: FlodymArray(dims=S))
        exp = SL.const(W, dims, 0)
    elif case == "number":
        c = W.number("c")
        out = W.call(lambda: FlodymArray(dims=S, values=c))
        exp = SL.const(W, dims, c)
        accepted = k == 0
    elif case == "bad_type":
        out = W.call(lambda: FlodymArray(dims=S, values="abc"))
        accepted = False
    elif case in ("repeated_letter_by_subset", "repeated_letter_by_expand"):
        # a dimension set in which one letter occurs twice (reached without the set's own constructor: a subset
        # request that names a dimension twice -- by letter and by name --, or an in-place extension by two
        # dimensions that share a letter): either that step refuses, or no array can be built over the set
        l0 = sk["x"][-1]
        if case == "repeated_letter_by_subset":
            keys = tuple(sk["x"]) + (D[l0].name,)
            bad = W.call(lambda: S.get_subset(keys))
            bad_set = bad.value if bad.kind == "return" else None
        else:
            t1, t2 = W.dim("z", name="Twin1", tag="z_1"), W.dim("z", name="Twin2", tag="z_2")
            bad_set = mk_set(W, dims)
            bad = W.call(lambda: bad_set.expand_by([t1, t2], inplace=True))
        if bad.kind == "raise":
            SL.check_raises(W, f"ctor[{case}].set_refused", bad, (ValueError, KeyError))
            return
        letters = list(bad_set.letters)
        if len(set(letters)) == len(letters):
            return  # (the step removed the repetition: nothing ill-formed to build on)
        out = W.call(lambda: FlodymArray(dims=bad_set))
        SL.check_raises(W, f"ctor[{case}]", out, ValueError)
        out2 = W.call(lambda: FlodymArray(dims=bad_set, values=W.ndarray("v", [W.size_of(d) for d in bad_set.dim_list])))
        SL.check_raises(W, f"ctor[{case}](values of the listed lengths)", out2, ValueError)
        return
    else:
        if case == "ndarray_same":
            shape = list(own)
        elif case == "ndarray_free":
            shape = [W.size_of(W.dim(l, tag=f"m_{l}")) for l in sk["x"]]
        elif case == "ndarray_rank-1":
            shape = list(own[1:])
        else:
            shape = list(own) + [W.size_of(W.dim("v"))]
        v = W.ndarray("v", shape)
        out = W.call(lambda: FlodymArray(dims=S, values=v))
        if len(shape) != k:
            accepted = False
        else:
            conds = [W.size_eq(a, b) for a, b in zip(shape, own)]
            accepted = bool(core.sand(*conds) if W.symbolic else all(conds))
        if accepted:
            exp = SL.lab_of_values(W, v, dims)
    if accepted:
        SL.check_same_array(W, f"ctor[{case}]", out, exp)
        if out.kind == "return":
            r = out.value
            W.prove("ctor.dims_copied", r.dims is not S and r.dims.dim_list is not S.dim_list, kind="ownership")
    else:
        SL.check_raises(W, f"ctor[{case}]", out, ValueError)
    W.prove("ctor.argument_set_unchanged", len(S.dim_list) == len(ssnap[1]) and all(a is b for a, b in zip(S.dim_list, ssnap[1])), kind="frame")


def sk_factories(tier):
    return [{"x": ALPHA[:k]} for k in range(0, _rank(tier, 3, 4) + 1)]


@unit(
    "arrays.factories_and_copy",
    props=["C13", "C15"],
    targets=[
        "flodym.flodym_arrays.FlodymArray.full",
        "flodym.flodym_arrays.FlodymArray.full_like",
        "flodym.flodym_arrays.FlodymArray.scalar",
        "flodym.flodym_arrays.FlodymArray.from_dims_superset",
        "flodym.flodym_arrays.FlodymArray.copy",
        "flodym.flodym_arrays.FlodymArray.shape",
    ],
    skeletons=sk_factories,
)
def u_factories(W, sk):
    from flodym.flodym_arrays import FlodymArray
    from .dimensions import mk_set

    D = mk_dims(W, sk["x"])
    dims = [D[l] for l in sk["x"]]
    x = W.array("x", dims)
    X = SL.lab(W, x)
    S = mk_set(W, dims)
    c = W.number("c")
    snaps = SL.snapshot(W, [x])
    out = W.call(lambda: FlodymArray.full(S, c))
    SL.check_same_array(W, "full", out, SL.const(W, dims, c))
    if out.kind == "return":
        W.prove("full.dims_copied", out.value.dims is not S and out.value.dims.dim_list is not S.dim_list, kind="ownership")
    out = W.call(lambda: FlodymArray.full_like(x, c))
    SL.check_same_array(W, "full_like", out, SL.const(W, dims, c), fresh_from=[x], own_dims_from=[x])
    out = W.call(lambda: x.copy())
    SL.check_same_array(W, "copy", out, X, fresh_from=[x], own_dims_from=[x])
    out = W.call(lambda: FlodymArray.scalar(c))
    SL.check_same_array(W, "scalar", out, SL.const(W, [], c))
    for sub in ordered_subsets(sk["x"], 2):
        out = W.call(lambda: FlodymArray.from_dims_superset(S, tuple(sub)))
        SL.check_same_array(W, f"from_dims_superset[{sub}]", out, SL.const(W, [D[l] for l in sub], 0))
    out = W.call(lambda: FlodymArray.from_dims_superset(S))
    SL.check_same_array(W, "from_dims_superset[all]", out, SL.const(W, dims, 0))
    if out.kind == "return":
        W.prove("from_dims_superset.dims_copied", out.value.dims is not S and out.value.dims.dim_list is not S.dim_list, kind="ownership")
    SL.check_unchanged(W, "factories", snaps)
    W.prove("factories.superset_unchanged", len(S.dim_list) == len(dims) and all(a is b for a, b in zip(S.dim_list, dims)), kind="frame")


# ----------------------------------------------------------------------------------------
# stacking and splitting (C04, C06, C15): the stacked / split dimension has a concrete number of
# items (enumerated 1..3), every other size is symbolic


def sk_stack(tier):
    out = []
    for k in range(0, _rank(tier, 2, 3) + 1):
        for n in (1, 2, 3):
            out.append({"x": ALPHA[:k], "n": n, "orders": "same"})
            if k >= 2 and n >= 2:
                # the stacked arrays store their (common) dimensions in different orders
                out.append({"x": ALPHA[:k], "n": n, "orders": "rotated"})
    return out


@unit(
    "arrays.stack_and_split",
    props=["C04", "C06", "C13", "C15"],
    targets=["flodym.flodym_array_helper.flodym_array_stack", "flodym.flodym_arrays.FlodymArray.split", "flodym.flodym_arrays.FlodymArray.__setitem__", "flodym.flodym_arrays.FlodymArray.__getitem__"],
    skeletons=sk_stack,
    note="number of stacked arrays / items of the split dimension enumerated 1..3 (bounded); all other sizes symbolic",
)
def u_stack(W, sk):
    from flodym.flodym_array_helper import flodym_array_stack
    from flodym.dimensions import Dimension

    D = mk_dims(W, sk["x"])
    dims = [D[l] for l in sk["x"]]
    n = sk["n"]
    new = Dimension(name="Stacked", letter="z", items=[f"z{j}" for j in range(n)])
    def order(j):
        if sk.get("orders") != "rotated" or len(dims) < 2:
            return dims
        r = j % len(dims)
        return list(reversed(dims)) if (j == 1 and len(dims) == 2) else dims[r:] + dims[:r]

    arrs = [W.array(f"x{j}", order(j)) for j in range(n)]
    labs = [SL.lab(W, a) for a in arrs]
    snaps = SL.snapshot(W, arrs)
    out = W.call(lambda: flodym_array_stack(arrs, new))

    def entry(asg):
        j = asg["z"]
        if isinstance(j, int):
            return labs[j].at(asg)
        e = labs[n - 1].at(asg)
        for q in range(n - 2, -1, -1):
            e = core.site(j == q, labs[q].at(asg), e)
        return e

    exp = SL.Lab(W, tuple(sk["x"]) + ("z",), {**{l: D[l] for l in sk["x"]}, "z": new}, entry)
    SL.check_same_array(W, "stack", out, exp, fresh_from=arrs, own_dims_from=arrs)
    SL.check_unchanged(W, "stack", snaps)
    if out.kind != "return":
        return
    st = out.value
    ssnap = SL.snapshot(W, [st])
    sp = W.call(lambda: st.split("z"))
    W.prove("split.returns", sp.kind == "return", detail=repr(sp))
    if sp.kind == "return":
        d = sp.value
        W.prove("split.keys", isinstance(d, dict) and list(d.keys()) == list(new.items), detail=str(list(d.keys()) if isinstance(d, dict) else d))
        if isinstance(d, dict) and list(d.keys()) == list(new.items):
            for j, it in enumerate(new.items):
                part = d[it]
                if SL.check_wf(W, f"split[{j}]", part, fresh_from=[st], own_dims_from=[st]):
                    P = SL.lab(W, part)
                    ok = P.letters == tuple(sk["x"])
                    W.prove(f"split[{j}].letters", ok)
                    if ok:
                        W.forall(f"split[{j}].entries", [W.size_of(D[l]) for l in sk["x"]], (lambda P, j: lambda idx: W.num_eq(P.at(dict(zip(sk["x"], idx))), labs[j].at(dict(zip(sk["x"], idx)))))(P, j))
    SL.check_unchanged(W, "split", ssnap)


# ----------------------------------------------------------------------------------------
# items_where (data-dependent shape: np.argwhere under the selection-enumeration contract)


@unit(
    "arrays.items_where",
    props=["C06"],
    targets=["flodym.flodym_arrays.FlodymArray.items_where"],
    skeletons=lambda tier: [{"x": ALPHA[:k]} for k in range(1, (5 if tier == "thorough" else 4))],
    stubs=["numpy.argwhere"],
    note="condition = 'entry > thr' with a symbolic threshold: the result has one row per entry satisfying the condition and one column per dimension; every row holds items of the respective dimensions under which an entry satisfying the condition is stored; different rows hold different label combinations; every satisfying entry has its row. np.argwhere = enumeration of exactly the selected index tuples (contract SelOrder, symbolic number of rows)",
)
def u_items_where(W, sk):
    import numpy as np

    D = mk_dims(W, sk["x"])
    dims = [D[l] for l in sk["x"]]
    x = W.array("x", dims)
    snaps = SL.snapshot(W, [x])
    if not W.symbolic:
        thr = 0.0
        out = W.call(lambda: x.items_where(lambda v: v > thr))
        W.prove("items_where.returns", out.kind == "return", detail=repr(out))
        if out.kind != "return":
            return
        rows = [tuple(r) for r in np.asarray(out.value).reshape(-1, len(dims)).tolist()] if np.asarray(out.value).size else []
        want = []
        for idx in np.ndindex(*x.values.shape):
            if x.values[idx] > thr:
                want.append(tuple(str(d.items[i]) for d, i in zip(dims, idx)))
        W.prove("items_where.exactly_the_true_labels", sorted(rows) == sorted(want) and len(rows) == len(set(rows)), detail=f"got {rows[:4]} want {want[:4]}")
        SL.check_unchanged(W, "items_where", snaps)
        return
    import z3
    from fvc import symnp
    from fvc.core import to_int, to_real, wrap

    X = SL.lab(W, x)
    thr = W.number("thr")
    out = W.call(lambda: x.items_where(lambda v: v > thr))
    W.prove("items_where.returns", out.kind == "return", detail=repr(out))
    SL.check_unchanged(W, "items_where", snaps)
    if out.kind != "return":
        return
    R = out.value
    k = len(dims)
    ok = isinstance(R, symnp.SymArr) and R.ndim == 2 and isinstance(R.shape[1], int) and R.shape[1] == k
    W.prove("items_where.one_column_per_dimension", ok, detail=f"{type(R).__name__} shape {getattr(R, 'shape', None)}")
    if not ok:
        return
    sos = W.c.__dict__.get("_selorders", [])
    W.prove("items_where.selection_contract_used", len(sos) == 1)
    if len(sos) != 1:
        return
    so = sos[0]
    M = R.shape[0]
    W.prove("items_where.one_row_per_selected_entry", W.size_eq(M, so.M))
    cell = lambda r, d: W.elem(R, (r, d))
    entry = lambda idx: X.at(dict(zip(sk["x"], idx)))
    r = W.fresh_int("row", 0, M)
    pos = []
    for d, dm in enumerate(dims):
        W.prove(f"items_where.row_holds_items[{d}]", wrap(dm.items.contains_expr(to_int(cell(r, d)))))
        pos.append(wrap(dm.items._pos(to_int(cell(r, d)))))
    W.prove("items_where.row_labels_satisfy_condition", wrap(to_real(entry(tuple(pos))) > to_real(thr)), detail="the entry stored under the reported labels satisfies the condition")
    ra, rb = W.fresh_int("ra", 0, M), W.fresh_int("rb", 0, M)
    W.c.assume(to_int(ra) != to_int(rb))
    W.prove("items_where.rows_differ", wrap(z3.Or(*[to_int(cell(ra, d)) != to_int(cell(rb, d)) for d in range(k)])), detail="no entry reported twice")
    idx = tuple(W.fresh_int(f"i{d}", 0, W.size_of(dm)) for d, dm in enumerate(dims))
    if bool(wrap(to_real(entry(idx)) > to_real(thr))):
        r2 = wrap(so.row_of(idx))
        W.prove("items_where.satisfying_entry_has_row.in_range", wrap(z3.And(to_int(r2) >= 0, to_int(r2) < to_int(M))))
        for d, dm in enumerate(dims):
            W.prove(f"items_where.satisfying_entry_has_row.labels[{d}]", wrap(to_int(cell(r2, d)) == dm.items.at_expr(idx[d])))


# ----------------------------------------------------------------------------------------
# callee contracts as stubs (modular verification of callers of the arithmetic operators)


def materialize(W, L, name="unnamed"):
    """a fresh FlodymArray whose entries are given by the label-level description L (symbolic world)"""
    from flodym.flodym_arrays import FlodymArray
    from fvc import symnp
    from fvc.core import to_real, wrap
    from .dimensions import mk_set

    dims = [L.dims[l] for l in L.letters]
    shape = [W.size_of(d) for d in dims]
    letters = L.letters
    vals = symnp.SymArr.fresh(shape, lambda idx: to_real(L.at(dict(zip(letters, [wrap(i) if not isinstance(i, int) else i for i in idx])))))
    return FlodymArray.model_construct(dims=mk_set(W, dims), values=vals, name=name)


def operator_contract_stubs(W):
    """(owner, attribute, stub) triples: +, -, unary -, reflected + of FlodymArray replaced by their *contracts*
    (precondition: operand is a FlodymArray or a number; result: the label-level specification proved for the
    real operators in arrays.binop / arrays.scalar_and_unary).  Only meaningful in the symbolic world."""
    from numbers import Number
    from flodym.flodym_arrays import FlodymArray

    if not W.symbolic:
        return []

    def as_operand(x, y):
        if isinstance(y, FlodymArray):
            return y
        if isinstance(y, Number):
            X = SL.lab(W, x)
            return ("const", y)
        raise AssertionError("Can only perform operations between two FlodymArrays or FlodymArray and scalar.")

    def binop(op):
        def stub(self, other):
            W.called_stubs.append(f"FlodymArray.{op}")
            o = as_operand(self, other)
            if isinstance(o, tuple):
                X = SL.lab(W, self)
                c = o[1]
                f = (lambda a: a + c) if op == "add" else (lambda a: a - c)
                return materialize(W, SL.Lab(W, X.letters, X.dims, lambda asg: f(X.at(asg))))
            return materialize(W, spec_intersect_op(W, op, self, o))

        return stub

    def neg(self):
        W.called_stubs.append("FlodymArray.__neg__")
        X = SL.lab(W, self)
        return materialize(W, SL.Lab(W, X.letters, X.dims, lambda asg: -X.at(asg)))

    add = binop("add")
    return [
        (FlodymArray, "__add__", add),
        (FlodymArray, "__sub__", binop("sub")),
        (FlodymArray, "__neg__", neg),
        (FlodymArray, "__radd__", lambda self, other: add(self, other)),
    ]


# ----------------------------------------------------------------------------------------
# the binary operators verified *modularly*: every callee is replaced by its contract


def callee_contract_stubs(W):
    """stubs for the callees of the binary operators, each returning what its own contract (proved in the unit
    named in brackets) specifies:
      FlodymArray._prepare_other      [arrays.scalar_and_unary]  number -> constant array over self's dims
      DimensionSet.intersect_with     [dimset.setops]            left order, left objects, fresh set
      DimensionSet.union_with         [dimset.setops]            left then new right dims, fresh set
      FlodymArray.sum_values_to       [arrays.sum_to]            marginal sums in the requested order
      FlodymArray(dims=, values=)     [arrays.constructor]       accepts iff shapes agree; own dims copy; keeps values"""
    import flodym.flodym_arrays as fa
    from numbers import Number
    from flodym.flodym_arrays import FlodymArray
    from flodym.dimensions import DimensionSet
    from fvc import symnp
    from fvc.core import to_real, wrap
    from .dimensions import mk_set, spec_intersect, spec_union

    used = W.called_stubs

    def prepare_other(self, other):
        used.append("_prepare_other")
        if isinstance(other, FlodymArray):
            return other
        if isinstance(other, Number):
            X = SL.lab(W, self)
            return materialize(W, SL.Lab(W, X.letters, X.dims, lambda asg: other))
        raise AssertionError("Can only perform operations between two FlodymArrays or FlodymArray and scalar.")

    def intersect_with(self, other):
        used.append("intersect_with")
        return mk_set(W, spec_intersect(list(self.dim_list), list(other.dim_list)))

    def union_with(self, other):
        used.append("union_with")
        return mk_set(W, spec_union(list(self.dim_list), list(other.dim_list)))

    def sum_values_to(self, result_dims=()):
        used.append("sum_values_to")
        X = SL.lab(W, self)
        K = tuple(result_dims)
        for l in K:
            if l not in X.letters:
                raise KeyError(f"Dimension {l} not found in FlodymArray dims.")
        M = SL.marg(X, K)
        shape = [M.size(l) for l in K]
        return symnp.SymArr.fresh(shape, lambda idx: to_real(M.at(dict(zip(K, [wrap(i) if not isinstance(i, int) else i for i in idx])))))

    class CtorMeta(type):
        def __instancecheck__(cls, inst):
            return isinstance(inst, FlodymArray)

    class Ctor(metaclass=CtorMeta):
        def __new__(cls, dims=None, values=None, name="unnamed"):
            used.append("FlodymArray()")
            dl = list(dims.dim_list)
            if isinstance(values, Number) and not isinstance(values, symnp.SymArr):
                # contract of the constructor: a number is accepted for a zero-dimensional array and stored as an array
                if dl:
                    raise ValueError("Values must be a numpy array, except for 0-dimensional arrays.")
                values = symnp.as_symarr(values)
            shp = values.shape
            ok = len(shp) == len(dl) and all(bool(W.size_eq(a, W.size_of(d))) for a, d in zip(shp, dl))
            if not ok:
                raise ValueError("Values passed to FlodymArray must have the same shape as the DimensionSet.")
            return FlodymArray.model_construct(dims=mk_set(W, dl), values=values, name=name)

    return [
        (FlodymArray, "_prepare_other", prepare_other),
        (DimensionSet, "intersect_with", intersect_with),
        (DimensionSet, "union_with", union_with),
        (FlodymArray, "sum_values_to", sum_values_to),
        (fa, "FlodymArray", Ctor),
    ]


@unit(
    "arrays.binop.modular",
    props=["C01", "C04"],
    targets=[
        "flodym.flodym_arrays.FlodymArray.__add__",
        "flodym.flodym_arrays.FlodymArray.__sub__",
        "flodym.flodym_arrays.FlodymArray.__mul__",
        "flodym.flodym_arrays.FlodymArray.__truediv__",
        "flodym.flodym_arrays.FlodymArray.minimum",
        "flodym.flodym_arrays.FlodymArray.maximum",
    ],
    stubs=[
        "flodym.flodym_arrays.FlodymArray._prepare_other",
        "flodym.dimensions.DimensionSet.intersect_with",
        "flodym.dimensions.DimensionSet.union_with",
        "flodym.flodym_arrays.FlodymArray.sum_values_to",
        "flodym.flodym_arrays.FlodymArray.validate_values",
    ],
    skeletons=lambda tier: [{"op": op, **p} for p in sk_pairs(tier, 3, 4) for op in list(INTERSECT_OPS) + list(UNION_OPS)],
    note="the same label-level postconditions as arrays.binop, but each operator body is checked against the *contracts* of its callees (stubs), not their bodies; symbolic world only (the concrete twin runs the real callees)",
)
def u_binop_modular(W, sk):
    D, x, y = operands(W, sk)
    op = sk["op"]
    stubs = callee_contract_stubs(W) if W.symbolic else []
    if op in INTERSECT_OPS:
        out = W.call(lambda: INTERSECT_OPS[op][0](x, y), stubs=stubs)
        SL.check_same_array(W, op, out, spec_intersect_op(W, op, x, y), fresh_from=[x, y], own_dims_from=[x, y])
    else:
        out = W.call(lambda: UNION_OPS[op][0](x, y), stubs=stubs)
        exp, Y = spec_union_op(W, op, x, y)
        hyp = (lambda asg: Y.at(asg) != 0) if op == "truediv" else None
        SL.check_same_array(W, op, out, exp, fresh_from=[x, y], own_dims_from=[x, y], hyp=hyp)
    if W.symbolic:
        W.prove(f"{op}.callee_contracts_were_used", len(W.called_stubs) >= 3, kind="callee-pre", detail=str(W.called_stubs))
