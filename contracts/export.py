"""Contracts for flodym/export (C19, C20).

convert_to_dict (numpy form), the Sankey link assembly and the data path of the array plotters (which
numbers reach which add_line call) run in the symbolic world on the enumerated system graphs / role
assignments, with the plotting libraries replaced by recording stubs (ghost trace).  The pandas / CSV /
pickle forms and 'the figure holds these numbers' are bounded run-time units on real libraries.
"""
from __future__ import annotations

import itertools
import os
import tempfile

from fvc import core, symnp, speclib as SL
from fvc.units import unit
from fvc.harness import Outcome
from .system import System, GRAPHS

NINE_KEYS = ["dimension_names", "dimension_items", "processes", "flows", "flow_dimensions", "flow_processes", "stocks", "stock_dimensions", "stock_processes"]


@unit(
    "export.convert_to_dict_numpy",
    props=["C19", "C15"],
    targets=["flodym.export.data_writer.convert_to_dict", "flodym.export.data_writer._convert_to_dict_by_func", "flodym.export.data_writer._get_convert_func"],
    skeletons=lambda tier: [{"graph": g, "table": t} for g in GRAPHS if tier == "thorough" or not g.startswith("generated") for t in ("as_listed", "permuted") if t == "as_listed" or len(GRAPHS[g][0]) > 2],
    note="the numpy form returns the live value buffers of the system (the statement only requires the export not to alter the system); process table in id order and in another order (ids are not positions)",
)
def u_convert_numpy(W, sk):
    from flodym.export.data_writer import convert_to_dict

    S = System(W, sk["graph"], table=sk["table"])
    mfa = S.mfa
    snaps = SL.snapshot(W, S.arrays())
    out = W.call(lambda: convert_to_dict(mfa, "numpy"))
    W.prove("convert_to_dict.returns", out.kind == "return", detail=repr(out))
    if out.kind != "return":
        return
    d = out.value
    W.prove("convert_to_dict.exactly_the_nine_keys", isinstance(d, dict) and list(d.keys()) == NINE_KEYS)
    dl = list(mfa.dims.dim_list)
    W.prove("dict.dimension_names", d["dimension_names"] == {x.letter: x.name for x in dl})
    W.prove("dict.dimension_items", list(d["dimension_items"].keys()) == [x.name for x in dl] and all(d["dimension_items"][x.name] is x.items for x in dl))
    W.prove("dict.processes", d["processes"] == list(S.processes.keys()))
    W.prove("dict.flows.every_flow_once", list(d["flows"].keys()) == list(S.flows.keys()))
    for nm, f in S.flows.items():
        v = d["flows"].get(nm)
        W.prove(f"dict.flows[{nm}].values", v is f.values)
        W.prove(f"dict.flows[{nm}].dimensions_and_processes", d["flow_dimensions"].get(nm) == tuple(x.letter for x in f.dims.dim_list) and d["flow_processes"].get(nm) == (f.from_process.name, f.to_process.name))
    W.prove("dict.stocks.every_stock_once", list(d["stocks"].keys()) == list(S.stocks.keys()))
    for nm, s in S.stocks.items():
        W.prove(f"dict.stocks[{nm}].values", d["stocks"].get(nm) is s.stock.values and d["stock_dimensions"].get(nm) == tuple(x.letter for x in s.stock.dims.dim_list))
        W.prove(f"dict.stocks[{nm}].process", (d["stock_processes"].get(nm) == s.process.name) if s.process is not None else nm not in d["stock_processes"])
    out2 = W.call(lambda: convert_to_dict(mfa, "xml"))
    SL.check_raises(W, "convert_to_dict(unknown type)", out2, ValueError)
    SL.check_unchanged(W, "convert_to_dict", snaps)


def _rand_system(W, strided=True, zero_dim_flow=False, mixed_items=False):
    """concrete system with awkward names and (optionally) non-contiguous value arrays"""
    import numpy as np
    from flodym.dimensions import Dimension, DimensionSet
    from flodym.flodym_arrays import Flow, StockArray
    from flodym.processes import make_processes
    from flodym.stocks import SimpleFlowDrivenStock
    from flodym.mfa_system import MFASystem

    rng = W.rng
    T = Dimension(name="Time", letter="t", items=[2000 + 5 * k for k in range(rng.choice([3, 4]))], dtype=int)
    R = Dimension(name="Region", letter="r", items=["EU 27", "rest (world)", "A=>B"][: rng.choice([1, 2, 3])])
    # (str-typed items that look like numbers: a CSV file carries no types)
    P = Dimension(name="Product", letter="p", items=rng.choice([["bus", "car, small"], ["1000", "3000"]])[: rng.choice([1, 2])], dtype=str)
    if mixed_items:
        # an untyped dimension whose items mix numbers and text (in-memory forms only: a CSV file cannot tell 0 from "0")
        P = Dimension(name="Product", letter="p", items=[0, 1, "2+"][: rng.choice([2, 3])])
    dims = DimensionSet(dim_list=[T, R, P])
    procs = make_processes(["sysenv", "fabrication & co.", "in use (fleet)"])

    def vals(dl):
        shape = tuple(len(d.items) for d in dl)
        # (full-precision doubles among them: a text form must carry all their digits)
        a = np.array([rng.randint(-50, 50) + rng.choice([0.0, 0.5, 0.125, rng.random(), 1.0 / 3.0, 0.1 + 0.2]) for _ in range(int(np.prod(shape)) or 1)], dtype=float).reshape(shape)
        if strided and len(shape) >= 2 and rng.random() < 0.7:
            perm = list(range(len(shape)))
            rng.shuffle(perm)
            # same logical array, permuted memory layout
            a = np.ascontiguousarray(a.transpose(perm)).transpose(np.argsort(perm))
        return a

    flows = {}
    for (a, b, letters) in [("sysenv", "fabrication & co.", "trp"), ("fabrication & co.", "in use (fleet)", "pt"), ("in use (fleet)", "sysenv", "r"), ("in use (fleet)", "fabrication & co.", "rt")]:
        dl = [dims[l] for l in letters]
        name = f"{a} => {b}"
        flows[name] = Flow(dims=DimensionSet(dim_list=dl), values=vals(dl), name=name, from_process=procs[a], to_process=procs[b])
    if zero_dim_flow:
        name = "sysenv => in use (fleet)"
        flows[name] = Flow(dims=DimensionSet(dim_list=[]), values=np.array(float(rng.randint(1, 40)) + 0.25), name=name, from_process=procs["sysenv"], to_process=procs["in use (fleet)"])
    dl = [T, P]
    st = SimpleFlowDrivenStock(dims=DimensionSet(dim_list=dl), name="fleet: in-use", process=procs["in use (fleet)"], stock=StockArray(dims=DimensionSet(dim_list=dl), values=vals(dl)), inflow=StockArray(dims=DimensionSet(dim_list=dl), values=vals(dl)), outflow=StockArray(dims=DimensionSet(dim_list=dl), values=vals(dl)))
    st2 = SimpleFlowDrivenStock(dims=DimensionSet(dim_list=[T]), name="loose stock", process=None)
    return MFASystem(dims=dims, parameters={}, processes=procs, flows=flows, stocks={st.name: st, st2.name: st2})


@unit(
    "export.pandas_csv_pickle.bounded",
    props=["C19", "C11", "C04"],
    targets=["flodym.export.data_writer.convert_to_dict", "flodym.export.data_writer.export_mfa_to_pickle", "flodym.export.data_writer.export_mfa_flows_to_csv", "flodym.export.data_writer.export_mfa_stocks_to_csv", "flodym.export.helper.to_valid_file_name", "flodym.flodym_arrays.FlodymArray.to_df", "flodym.flodym_arrays.FlodymArray.from_df"],
    skeletons=lambda tier: [{"form": f} for f in ("pandas", "csv_flows", "csv_stocks", "pickle")],
    mode="bounded",
    note="systems with names containing spaces, arrows, punctuation; value arrays with permuted memory layout; every exported table is read back with from_df into the identical array; one CSV file per flow / stock quantity; the system is unchanged by exporting",
)
def u_export_bounded(W, sk):
    import copy
    import pickle
    import numpy as np
    import pandas as pd
    from flodym.export.data_writer import convert_to_dict, export_mfa_to_pickle, export_mfa_flows_to_csv, export_mfa_stocks_to_csv
    from flodym.export.helper import to_valid_file_name
    from flodym.flodym_arrays import FlodymArray

    mfa = _rand_system(W, mixed_items=(sk["form"] in ("pandas", "pickle") and W.rng.random() < 0.5))
    before = {n: np.array(f.values, copy=True) for n, f in mfa.flows.items()}
    before_s = {n: [np.array(a.values, copy=True) for a in (s.stock, s.inflow, s.outflow)] for n, s in mfa.stocks.items()}

    def same_back(name, df, arr):
        back = W.call(lambda: FlodymArray.from_df(dims=arr.dims, df=df))
        W.prove(f"{name}.reads_back_identical", back.kind == "return" and back.value.values.shape == arr.values.shape and bool(np.array_equal(back.value.values, arr.values)), detail=repr(back) if back.kind != "return" else f"values differ by up to {float(np.max(np.abs(back.value.values - arr.values))):.3g}")

    d = tempfile.mkdtemp(prefix="fvc_exp_")
    try:
        if sk["form"] == "pandas":
            out = W.call(lambda: convert_to_dict(mfa, "pandas"))
            W.prove("pandas.returns", out.kind == "return", detail=repr(out))
            if out.kind == "return":
                dd = out.value
                W.prove("pandas.every_flow_and_stock", list(dd["flows"].keys()) == list(mfa.flows.keys()) and list(dd["stocks"].keys()) == list(mfa.stocks.keys()))
                for n, f in mfa.flows.items():
                    df = dd["flows"][n]
                    ok = True
                    for idx in np.ndindex(*f.values.shape):
                        lab = tuple(dm.items[i] for dm, i in zip(f.dims.dim_list, idx))
                        try:
                            v = df.loc[lab if len(lab) > 1 else lab[0], "value"]
                            ok = ok and float(v) == float(f.values[idx])
                        except (KeyError, TypeError, ValueError):
                            ok = False  # no (unique) row under these labels
                    W.prove(f"pandas.flow[{n}].every_entry_under_its_labels", ok and len(df) == f.values.size)
                    same_back(f"pandas.flow[{n}]", df, f)
                for n, s in mfa.stocks.items():
                    same_back(f"pandas.stock[{n}]", dd["stocks"][n], s.stock)
        elif sk["form"] == "csv_flows":
            out = W.call(lambda: export_mfa_flows_to_csv(mfa, d))
            W.prove("csv_flows.returns", out.kind == "return", detail=repr(out))
            files = sorted(os.listdir(d))
            W.prove("csv_flows.one_file_per_flow", files == sorted(to_valid_file_name(n) + ".csv" for n in mfa.flows) and len(set(files)) == len(mfa.flows), detail=str(files))
            for n, f in mfa.flows.items():
                df = pd.read_csv(os.path.join(d, to_valid_file_name(n) + ".csv"), float_precision="round_trip")
                same_back(f"csv.flow[{n}]", df, f)
        elif sk["form"] == "csv_stocks":
            with_io = W.rng.random() < 0.6
            out = W.call(lambda: export_mfa_stocks_to_csv(mfa, d, with_in_and_out=with_io))
            W.prove("csv_stocks.returns", out.kind == "return", detail=repr(out))
            want = []
            for n, s in mfa.stocks.items():
                for q in ["stock"] + (["inflow", "outflow"] if with_io else []):
                    want.append(f"{to_valid_file_name(n)}_{q}.csv")
            W.prove("csv_stocks.one_file_per_exported_quantity", sorted(os.listdir(d)) == sorted(want), detail=str(sorted(os.listdir(d))))
            for n, s in mfa.stocks.items():
                for q in ["stock"] + (["inflow", "outflow"] if with_io else []):
                    df = pd.read_csv(os.path.join(d, f"{to_valid_file_name(n)}_{q}.csv"), float_precision="round_trip")
                    same_back(f"csv.stock[{n}].{q}", df, getattr(s, q))
        else:
            path = os.path.join(d, "mfa.pickle")
            out = W.call(lambda: export_mfa_to_pickle(mfa, path))
            W.prove("pickle.returns", out.kind == "return", detail=repr(out))
            dd = pickle.load(open(path, "rb"))
            ref = convert_to_dict(mfa, "numpy")
            W.prove("pickle.same_as_numpy_dict", list(dd.keys()) == list(ref.keys()) and all(bool(np.array_equal(dd["flows"][n], ref["flows"][n])) for n in ref["flows"]) and all(bool(np.array_equal(dd["stocks"][n], ref["stocks"][n])) for n in ref["stocks"]) and dd["flow_processes"] == ref["flow_processes"] and dd["dimension_items"] == ref["dimension_items"] and dd["stock_processes"] == ref["stock_processes"])
    finally:
        import shutil

        shutil.rmtree(d, ignore_errors=True)
    W.prove("export.system_unchanged", all(bool(np.array_equal(mfa.flows[n].values, before[n])) for n in before) and all(bool(np.array_equal(a.values, b)) for n, s in mfa.stocks.items() for a, b in zip((s.stock, s.inflow, s.outflow), before_s[n])))


@unit(
    "export.zero_dimensional_flow.bounded",
    props=["C19"],
    targets=["flodym.export.data_writer.convert_to_dict", "flodym.export.data_writer.export_mfa_to_pickle", "flodym.export.data_writer.export_mfa_flows_to_csv", "flodym.flodym_arrays.FlodymArray.to_df"],
    skeletons=lambda tier: [{"form": f, "zero_dim_flow": True} for f in ("numpy", "pickle", "pandas", "csv_flows")],
    mode="bounded",
    note="the system of export.pandas_csv_pickle.bounded plus one flow without dimensions (a plain number): every export form must contain it with its value",
)
def u_export_zero_dim(W, sk):
    import pickle
    import numpy as np
    import pandas as pd
    from flodym.export.data_writer import convert_to_dict, export_mfa_to_pickle, export_mfa_flows_to_csv
    from flodym.export.helper import to_valid_file_name

    mfa = _rand_system(W, zero_dim_flow=True)
    name = "sysenv => in use (fleet)"
    want = float(mfa.flows[name].values)
    W.inputs["zero_dimensional_flow"] = {name: want}
    d = tempfile.mkdtemp(prefix="fvc_exp0_")
    try:
        form = sk["form"]
        if form in ("numpy", "pandas"):
            out = W.call(lambda: convert_to_dict(mfa, form))
            W.prove(f"{form}.returns", out.kind == "return", detail=repr(out))
            if out.kind != "return":
                return
            got = out.value["flows"].get(name)
            if form == "numpy":
                W.prove("numpy.zero_dimensional_flow_with_its_value", got is not None and np.shape(got) == () and float(got) == want)
            else:
                W.prove("pandas.zero_dimensional_flow_with_its_value", got is not None and len(got) == 1 and float(got["value"].iloc[0]) == want, detail=str(got))
        elif form == "pickle":
            path = os.path.join(d, "mfa.pickle")
            out = W.call(lambda: export_mfa_to_pickle(mfa, path))
            W.prove("pickle.returns", out.kind == "return", detail=repr(out))
            if out.kind != "return":
                return
            dd = pickle.load(open(path, "rb"))
            W.prove("pickle.zero_dimensional_flow_with_its_value", name in dd["flows"] and float(dd["flows"][name]) == want)
        else:
            out = W.call(lambda: export_mfa_flows_to_csv(mfa, d))
            W.prove("csv_flows.returns", out.kind == "return", detail=repr(out))
            if out.kind != "return":
                return
            files = sorted(os.listdir(d))
            W.prove("csv_flows.one_file_per_flow", files == sorted(to_valid_file_name(n) + ".csv" for n in mfa.flows), detail=str(files))
            df = pd.read_csv(os.path.join(d, to_valid_file_name(name) + ".csv"), float_precision="round_trip")
            W.prove("csv_flows.zero_dimensional_flow_with_its_value", len(df) == 1 and float(df["value"].iloc[0]) == want, detail=str(df))
    finally:
        import shutil

        shutil.rmtree(d, ignore_errors=True)


@unit(
    "export.definition_to_dfs.bounded",
    props=["C19"],
    targets=["flodym.mfa_definition.MFADefinition.to_dfs"],
    skeletons=lambda tier: [{"with_stocks": b, "with_parameters": c} for b in (False, True) for c in (False, True)],
    mode="bounded",
    note="one table per non-empty kind of definition, one row per definition holding its field values",
)
def u_to_dfs(W, sk):
    import flodym.stocks as st
    import flodym.lifetime_models as lt
    from flodym.mfa_definition import MFADefinition, DimensionDefinition, FlowDefinition, StockDefinition, ParameterDefinition

    flows = [FlowDefinition(from_process_name="sysenv", to_process_name="use", dim_letters=("t", "e")), FlowDefinition(from_process_name="use", to_process_name="sysenv", dim_letters=("e",), name_override="back")]
    stocks = [StockDefinition(name="s1", process_name="use", dim_letters=("t",), subclass=st.StockDrivenDSM, lifetime_model_class=lt.NormalLifetime, solver="lapack")] if sk["with_stocks"] else []
    prms = [ParameterDefinition(name="p1", dim_letters=("e",)), ParameterDefinition(name="p2", dim_letters=())] if sk["with_parameters"] else []
    md = MFADefinition(dimensions=[DimensionDefinition(name="Time", letter="t", dtype=int), DimensionDefinition(name="Element", letter="e", dtype=str)], processes=["sysenv", "use"], flows=flows, stocks=stocks, parameters=prms)
    out = W.call(lambda: md.to_dfs())
    W.prove("to_dfs.returns", out.kind == "return", detail=repr(out))
    if out.kind != "return":
        return
    dfs = out.value
    want = ["dimensions", "processes", "flows"] + (["stocks"] if stocks else []) + (["parameters"] if prms else [])
    W.prove("to_dfs.one_table_per_non_empty_kind", sorted(dfs.keys()) == sorted(want), detail=str(list(dfs.keys())))
    W.prove("to_dfs.one_row_per_definition", len(dfs["dimensions"]) == 2 and len(dfs["processes"]) == 2 and len(dfs["flows"]) == 2 and (not stocks or len(dfs["stocks"]) == 1) and (not prms or len(dfs["parameters"]) == 2))
    f = dfs["flows"]
    W.prove("to_dfs.flow_fields", list(f["from_process_name"]) == ["sysenv", "use"] and list(f["to_process_name"]) == ["use", "sysenv"] and list(f["name_override"])[1] == "back" and [tuple(x) for x in f["dim_letters"]] == [("t", "e"), ("e",)])
    W.prove("to_dfs.process_names", list(dfs["processes"]["name"]) == ["sysenv", "use"])
    if stocks:
        s = dfs["stocks"]
        W.prove("to_dfs.stock_fields", list(s["name"]) == ["s1"] and list(s["solver"]) == ["lapack"] and list(s["process_name"]) == ["use"] and list(s["subclass"])[0] is st.StockDrivenDSM)


# ----------------------------------------------------------------------------------------
# C20: Sankey links


class Recorder:
    def __init__(self):
        self.calls = []


def sk_sankey(tier):
    out = []
    for g in ("chain_mixed_dims", "parallel_and_opposing", "with_stock", "self_loop", "no_stocks_scalar_flows", "inner_ring_mixed_dims"):
        for opt in ("default", "exclude_nothing", "exclude_flow", "exclude_flow_after_construction", "exclude_process", "slice_item", "slice_item_by_name", "split_by_dim"):
            out.append({"graph": g, "opt": opt, "table": "as_listed"})
    # two options that each work alone: a flow split by a dimension for colours *and* sliced to one item of another dimension
    for g in ("inner_three_dims", "chain_mixed_dims", "inner_ring_mixed_dims"):
        for sl in ("t", "r"):
            out.append({"graph": g, "opt": "split_by_dim", "slice": sl, "table": "as_listed"})
    out += [{"graph": "inner_three_dims", "opt": o, "table": "as_listed"} for o in ("default", "slice_item", "split_by_dim")]
    # settings that must be refused
    for opt in ("refuse_unknown_process", "refuse_unknown_flow", "refuse_slice_unknown_dim", "refuse_no_default_colour", "refuse_colour_dim_not_in_flow", "refuse_colour_list_too_short"):
        out.append({"graph": "chain_mixed_dims", "opt": opt, "table": "as_listed"})
    # process table in another order than the ids (ids are not positions)
    for opt in ("default", "exclude_process", "slice_item"):
        out.append({"graph": "inner_ring_mixed_dims", "opt": opt, "table": "permuted"})
    return out


@unit(
    "sankey.links_and_nodes",
    props=["C20"],
    targets=[
        "flodym.export.sankey.PlotlySankeyPlotter._get_links_dict",
        "flodym.export.sankey.PlotlySankeyPlotter._append_flow",
        "flodym.export.sankey.PlotlySankeyPlotter._get_nodes_dict",
        "flodym.export.sankey.PlotlySankeyPlotter.shown_processes",
        "flodym.export.sankey.PlotlySankeyPlotter.shown_flows",
        "flodym.export.sankey.PlotlySankeyPlotter._flow_is_shown",
        "flodym.export.sankey.PlotlySankeyPlotter.ids_in_sankey",
        "flodym.export.sankey.PlotlySankeyPlotter.excluded_process_ids",
        "flodym.export.sankey.PlotlySankeyPlotter.check_dims",
        "flodym.export.sankey.PlotlySankeyPlotter.check_excluded",
        "flodym.export.sankey.PlotlySankeyPlotter.check_flow_colors",
        "flodym.export.sankey.PlotlySankeyPlotter.check_node_colors",
        "flodym.export.sankey.DictOfLists.append",
    ],
    skeletons=sk_sankey,
    stubs=["plotly.graph_objects.Sankey", "plotly.graph_objects.Figure"],
    note="link and node dictionaries handed to plotly.graph_objects.Sankey (the call is recorded; that plotly keeps them is checked by the bounded unit); the colour-split dimension has an enumerated number of items (2), every other size is symbolic",
)
def u_sankey(W, sk):
    import flodym.export.sankey as sk_mod
    from flodym.dimensions import Dimension

    S = System(W, sk["graph"], table=sk.get("table", "as_listed"))
    mfa = S.mfa
    opt = sk["opt"]
    kw = {}
    excluded_p = ["sysenv"]
    excluded_f = []
    slice_dict = {}
    split = None
    if opt == "exclude_nothing":
        # an explicitly empty exclusion list: the system environment and the flows touching it are drawn, too
        excluded_p = []
        kw["exclude_processes"] = []
    elif opt == "exclude_flow" and S.flow_list:
        excluded_f = [S.flow_list[-1][0].name]
        kw["exclude_flows"] = excluded_f
    elif opt == "exclude_process":
        excluded_p = ["sysenv", "B"] if "B" in S.processes else ["sysenv"]
        kw["exclude_processes"] = excluded_p
    elif opt in ("slice_item", "slice_item_by_name"):
        item, pos = W.item_in(S.D["e"], "sl_e")
        slice_dict = {"e": item}
        # keyed by the dimension's name: either refused, or the links are sliced all the same
        kw["slice_dict"] = slice_dict if opt == "slice_item" else {S.D["e"].name: item}
    elif opt == "split_by_dim":
        # flows that have 'e' are split by a 2-item element dimension: rebuild 'e' as a concrete dimension
        return _sankey_split(W, sk)
    elif opt.startswith("refuse_"):
        inner = next(fl for fl, a, b in S.flow_list if a != "sysenv" and b != "sysenv")
        missing_dim = next(d for d in S.D.values() if d.letter not in [x.letter for x in inner.dims.dim_list])
        bad = {
            "refuse_unknown_process": {"exclude_processes": ["sysenv", "no such process"]},
            "refuse_unknown_flow": {"exclude_flows": ["no such flow"]},
            "refuse_slice_unknown_dim": {"slice_dict": {"x": "whatever"}},
            "refuse_no_default_colour": {"flow_color_dict": {inner.name: "red"}},
            "refuse_colour_dim_not_in_flow": {"flow_color_dict": {"default": "gray", inner.name: (missing_dim.name, ["red", "blue", "green", "black"])}},
            "refuse_colour_list_too_short": {"flow_color_dict": {"default": "gray", inner.name: (inner.dims.dim_list[0].name, [])}},
        }[opt]
        snaps = SL.snapshot(W, S.arrays())
        out = W.call(lambda: sk_mod.PlotlySankeyPlotter(mfa=mfa, **bad))
        SL.check_raises(W, f"sankey.{opt[7:]}", out, ValueError)
        SL.check_unchanged(W, "sankey", snaps)
        return
    snaps = SL.snapshot(W, S.arrays())
    rec = Recorder()
    out = W.call(lambda: sk_mod.PlotlySankeyPlotter(mfa=mfa, **kw))
    if opt == "slice_item_by_name" and out.kind == "raise":
        W.prove("sankey.slice_by_name.refused_with_ValueError", isinstance(out.exc, ValueError), detail=repr(out))
        SL.check_unchanged(W, "sankey", snaps)
        return
    W.prove("sankey.plotter_constructed", out.kind == "return", detail=repr(out))
    if out.kind != "return":
        return
    plotter = out.value
    if opt == "exclude_flow_after_construction" and S.flow_list:
        # the exclusion list of an existing plotter is changed (its fields are plain attributes): the next drawing
        # follows the current list
        inner = [fl for fl, a, b in S.flow_list if a != "sysenv" and b != "sysenv"]
        excluded_f = [(inner[0] if inner else S.flow_list[-1][0]).name]
        plotter.exclude_flows = list(excluded_f)
    o2 = W.call(lambda: (plotter._get_links_dict(), plotter._get_nodes_dict()))
    W.prove("sankey.links_and_nodes_return", o2.kind == "return", detail=repr(o2))
    if o2.kind != "return":
        return
    links, nodes = o2.value
    W.prove("sankey.plotter_settings_unchanged", dict(plotter.slice_dict) == dict(kw.get("slice_dict", {})) and list(plotter.exclude_processes) == list(excluded_p) and list(plotter.exclude_flows) == list(excluded_f), kind="frame", detail=f"slice_dict {plotter.slice_dict}")
    o3 = W.call(lambda: plotter._get_links_dict())
    W.prove("sankey.links_same_on_second_call", o3.kind == "return" and o3.value["label"] == links["label"] and o3.value["source"] == links["source"] and o3.value["target"] == links["target"] and len(o3.value["value"]) == len(links["value"]) and all(bool(W.num_eq(a, b)) for a, b in zip(o3.value["value"], links["value"])))
    shown_p = [p for p in S.processes if p not in excluded_p]
    W.prove("sankey.nodes.shown_processes_in_order", nodes["label"] == shown_p)
    shown = [(fl, a, b) for fl, a, b in S.flow_list if fl.name not in excluded_f and a not in excluded_p and b not in excluded_p]
    W.prove("sankey.links.one_link_per_shown_flow", len(links["value"]) == len(shown) and links["label"] == [fl.name for fl, _, _ in shown], detail=str(links["label"]))
    if len(links["value"]) != len(shown):
        return
    for k, (fl, a, b) in enumerate(shown):
        W.prove(f"sankey.link[{k}].runs_from_source_node_to_target_node", links["source"][k] == shown_p.index(a) and links["target"][k] == shown_p.index(b))
        L = SL.lab(W, fl)
        if "e" in slice_dict and "e" in L.letters:
            rest = tuple(l for l in L.letters if l != "e")
            tot = W.sum([(l, 0, L.size(l)) for l in rest], lambda idx: L.at({**dict(zip(rest, idx)), "e": pos})) if rest else L.at({"e": pos})
        else:
            tot = SL.marg(L, ()).at({})
        W.prove(f"sankey.link[{k}].value_is_flow_total_after_slice", W.num_eq(links["value"][k], tot))
    SL.check_unchanged(W, "sankey", snaps)


def _sankey_split(W, sk):
    import flodym.export.sankey as sk_mod
    from flodym.dimensions import Dimension

    S = System(W, sk["graph"])
    # a concrete two-item element dimension replaces the symbolic one in every flow that has it
    E = Dimension(name="Element", letter="e", items=["Fe", "Cu"])
    S2 = System.__new__(System)
    S2.__dict__.update(S.__dict__)
    from flodym.mfa_system import MFASystem
    from flodym.flodym_arrays import Flow
    from .dimensions import mk_set

    flows = {}
    flow_list = []
    for k, (fl, a, b) in enumerate(S.flow_list):
        dims = [E if d.letter == "e" else d for d in fl.dims.dim_list]
        arr = W.array(f"g{k}", dims)
        f2 = Flow.model_construct(dims=arr.dims, values=arr.values, name=fl.name, from_process=fl.from_process, to_process=fl.to_process) if W.symbolic else Flow(dims=arr.dims, values=arr.values, name=fl.name, from_process=fl.from_process, to_process=fl.to_process)
        flows[fl.name] = f2
        flow_list.append((f2, a, b))
    sysdims = [S.D["t"], E, S.D["r"]]
    args = dict(dims=mk_set(W, sysdims), parameters={}, processes=S.processes, flows=flows, stocks={})
    mfa = MFASystem.model_construct(**args) if W.symbolic else MFASystem(**args)
    target = next((fl for fl, a, b in flow_list if "e" in [d.letter for d in fl.dims.dim_list] and a != "sysenv" and b != "sysenv"), None)
    if target is None:
        return
    colors = {"default": "gray", target.name: ("Element", ["red", "blue", "green"])}
    kw = {}
    sl, sl_pos = sk.get("slice"), None
    if sl is not None:
        item, sl_pos = W.item_in(S.D[sl], "sl_" + sl)
        kw["slice_dict"] = {sl: item}
    out = W.call(lambda: sk_mod.PlotlySankeyPlotter(mfa=mfa, flow_color_dict=colors, **kw))
    W.prove("sankey.split.plotter_constructed", out.kind == "return", detail=repr(out))
    if out.kind != "return":
        return
    o2 = W.call(lambda: out.value._get_links_dict())
    W.prove("sankey.split.links_return", o2.kind == "return", detail=repr(o2))
    if o2.kind != "return":
        return
    links = o2.value
    shown = [(fl, a, b) for fl, a, b in flow_list if a != "sysenv" and b != "sysenv"]
    want_labels = []
    for fl, a, b in shown:
        want_labels += list(E.items) if fl is target else [fl.name]
    W.prove("sankey.split.one_link_per_item_of_the_split_flow", links["label"] == want_labels, detail=str(links["label"]))
    if links["label"] != want_labels:
        return
    k0 = want_labels.index("Fe")
    L = SL.lab(W, target)
    rest = tuple(l for l in L.letters if l != "e" and l != sl)
    fixed = {sl: sl_pos} if sl is not None and sl in L.letters else {}
    for j in range(2):
        tot = W.sum([(l, 0, L.size(l)) for l in rest], lambda idx: L.at({**dict(zip(rest, idx)), **fixed, "e": j})) if rest else L.at({**fixed, "e": j})
        W.prove(f"sankey.split.link[{E.items[j]}].value_is_item_total", W.num_eq(links["value"][k0 + j], tot))
        W.prove(f"sankey.split.link[{E.items[j]}].colour", links["color"][k0 + j] == ["red", "blue"][j])


@unit(
    "sankey.figure_holds_the_links.bounded",
    props=["C20"],
    targets=["flodym.export.sankey.PlotlySankeyPlotter.plot", "flodym.export.sankey.PlotlySankeyPlotter._get_fig"],
    skeletons=lambda tier: [{"k": k} for k in range(3)],
    mode="bounded",
    note="assumed contract of plotly: go.Figure(go.Sankey(link=..., node=...)) stores the link values, sources, targets and node labels it is given (checked on real plotly for random systems)",
)
def u_sankey_fig(W, sk):
    import numpy as np
    from flodym.export.sankey import PlotlySankeyPlotter

    mfa = _rand_system(W, strided=False)
    pl = PlotlySankeyPlotter(mfa=mfa)
    links, nodes = pl._get_links_dict(), pl._get_nodes_dict()
    out = W.call(lambda: pl.plot())
    W.prove("sankey.plot.returns", out.kind == "return", detail=repr(out))
    if out.kind != "return":
        return
    tr = out.value.data[0]
    W.prove("sankey.figure.link_values", [float(v) for v in tr.link.value] == [float(v) for v in links["value"]] and list(tr.link.source) == links["source"] and list(tr.link.target) == links["target"])
    W.prove("sankey.figure.node_labels", list(tr.node.label) == nodes["label"])
    shown = [f for f in mfa.flows.values() if "sysenv" not in (f.from_process.name, f.to_process.name)]
    W.prove("sankey.figure.values_are_flow_totals", len(links["value"]) == len(shown) and all(abs(float(v) - float(np.sum(f.values))) < 1e-9 for v, f in zip(links["value"], shown)))


# ----------------------------------------------------------------------------------------
# C20: array plotters -- which numbers reach which add_line call


def sk_plotter(tier):
    out = []
    # role assignment for a 1-3 dimensional array: (subplot, linecolor, intra_line) as letters
    for roles in [("", "", "x"), ("", "c", "x"), ("s", "", "x"), ("s", "c", "x")]:
        for order in itertools.permutations([l for l in roles if l]):
            for naming in ("names", "letters"):
                for xarr in ("default", "same_dims", "subset_permuted", "line_dim_only", "subplot_dim_only", "intra_dim_only"):
                    if xarr == "subset_permuted" and len(order) < 2:
                        continue
                    if (xarr == "line_dim_only" and not roles[1]) or (xarr == "subplot_dim_only" and not roles[0]):
                        continue
                    if xarr in ("line_dim_only", "subplot_dim_only", "intra_dim_only") and (naming == "letters" or order != tuple(l for l in roles if l)):
                        continue
                    if tier == "quick" and naming == "letters" and len(order) == 3 and xarr == "same_dims":
                        continue
                    out.append({"roles": list(roles), "order": "".join(order), "naming": naming, "xarr": xarr})
    return out


@unit(
    "plotter.lines_drawn",
    props=["C20", "C04"],
    targets=[
        "flodym.export.array_plotter.ArrayPlotter._prepare_arrays",
        "flodym.export.array_plotter.ArrayPlotter._dict_of_slices",
        "flodym.export.array_plotter.ArrayPlotter._get_x_array_like_value_array",
        "flodym.export.array_plotter.ArrayPlotter._plot_all_subplots",
        "flodym.export.array_plotter.ArrayPlotter._plot_subplot",
        "flodym.export.array_plotter.ArrayPlotter.check_dims",
        "flodym.flodym_arrays.FlodymArray.split",
        "flodym.flodym_arrays.FlodymArray.cast_to",
    ],
    skeletons=sk_plotter,
    stubs=["flodym.export.array_plotter.PlotlyArrayPlotter.add_line", "flodym.export.array_plotter.ArrayPlotter._label_subplot"],
    note="the trace of add_line calls (ghost state) for every storage order of the array and every role assignment; subplot and line-colour dimensions have 2 items each (enumerated), the dimension along the line has a symbolic number of numeric items; the library calls themselves are covered by the bounded unit",
)
def u_plotter(W, sk):
    import flodym.export.array_plotter as ap
    from flodym.dimensions import Dimension
    from flodym.flodym_arrays import FlodymArray
    from fvc import world

    roles = dict(zip(("subplot", "linecolor", "intra"), sk["roles"]))
    D = {}
    if roles["subplot"]:
        D["s"] = Dimension(name="Scenario", letter="s", items=["low", "high"])
    if roles["linecolor"]:
        D["c"] = Dimension(name="Colour", letter="c", items=["EU", "US"])
    if W.symbolic:
        n = core.sym_int("n_x", 1)
        xi = world.SymNumList("x", n, increasing=False)
        D["x"] = Dimension.model_construct(name="Time", letter="x", items=xi, dtype=None)
        W.in_dims["x"] = n
        xitem = lambda k: core.wrap(xi.fn(core.to_int(k)))
    else:
        n = W.rng.choice([1, 2, 4])
        its = [2000 + 3 * k for k in range(n)]
        D["x"] = Dimension(name="Time", letter="x", items=its)
        xitem = lambda k: float(its[int(k)])
    dims = [D[l] for l in sk["order"]]
    arr = W.array("y", dims)
    A = SL.lab(W, arr)
    key = (lambda l: D[l].name) if sk["naming"] == "names" else (lambda l: l)
    kw = dict(array=arr, intra_line_dim=key("x"))
    if roles["subplot"]:
        kw["subplot_dim"] = key("s")
    if roles["linecolor"]:
        kw["linecolor_dim"] = key("c")
    X = None
    if sk["xarr"] == "same_dims":
        xa = W.array("xv", list(reversed(dims)))
        X = SL.lab(W, xa)
        kw["x_array"] = xa
    elif sk["xarr"] == "subset_permuted":
        sub = [d for d in reversed(dims) if d.letter != sk["order"][0] or d.letter == "x"]
        if not any(d.letter == "x" for d in sub):
            sub.append(D["x"])
        xa = W.array("xv", sub)
        X = SL.lab(W, xa)
        kw["x_array"] = xa
    elif sk["xarr"] in ("line_dim_only", "subplot_dim_only", "intra_dim_only"):
        # an x array over one dimension only: the same x for all entries that share that dimension's item
        one = {"line_dim_only": "c", "subplot_dim_only": "s", "intra_dim_only": "x"}[sk["xarr"]]
        xa = W.array("xv", [D[one]])
        X = SL.lab(W, xa)
        kw["x_array"] = xa
    snaps = SL.snapshot(W, [arr] + ([kw["x_array"]] if "x_array" in kw else []))
    trace = []

    def add_line(self, i_subplot, x, y, prev_y, label, i_line):
        trace.append((i_subplot, x, y, label, i_line))

    stubs = [(ap.PlotlyArrayPlotter, "add_line", add_line), (ap.ArrayPlotter, "_label_subplot", lambda self, i_subplot: None)]
    out = W.call(lambda: ap.PlotlyArrayPlotter(**kw))
    W.prove("plotter.constructed", out.kind == "return", detail=repr(out))
    if out.kind != "return":
        return
    P = out.value

    def run():
        a, b = P._prepare_arrays()
        P._plot_all_subplots(a, b)

    o2 = W.call(run, stubs=stubs)
    W.prove("plotter.data_path_returns", o2.kind == "return", detail=repr(o2))
    if o2.kind != "return":
        return
    s_items = D["s"].items if roles["subplot"] else [None]
    c_items = D["c"].items if roles["linecolor"] else [None]
    want = [(i, si, j, ci) for i, si in enumerate(s_items) for j, ci in enumerate(c_items)]
    W.prove("plotter.one_line_per_subplot_item_and_line_item", len(trace) == len(want) and all(t[0] == w[0] and t[4] == w[2] for t, w in zip(trace, want)), detail=f"{len(trace)} lines")
    if len(trace) != len(want):
        return
    for (i_sub, xv, yv, label, i_line), (i, si, j, ci) in zip(trace, want):
        fixed = {}
        if si is not None:
            fixed["s"] = i
        if ci is not None:
            fixed["c"] = j
            W.prove(f"plotter.line[{i},{j}].label_is_line_item", label == ci)
        tag = f"plotter.line[{i},{j}]"
        ok = W.is_ndarray(yv) and W.is_ndarray(xv) and len(W.shape_of(yv)) == 1 and len(W.shape_of(xv)) == 1
        W.prove(f"{tag}.x_and_y_are_vectors", ok)
        if not ok:
            continue
        W.prove(f"{tag}.lengths", W.size_eq(W.shape_of(yv)[0], n) and W.size_eq(W.shape_of(xv)[0], n))
        W.forall_range(f"{tag}.y_is_array_entries_for_these_labels", [(0, n)], lambda idx, yv=yv, fixed=fixed: W.num_eq(W.elem(yv, (idx[0],)), A.at({**fixed, "x": idx[0]})))
        if X is None:
            W.forall_range(f"{tag}.x_is_the_items_along_the_line", [(0, n)], lambda idx, xv=xv: W.num_eq(W.elem(xv, (idx[0],)), xitem(idx[0])))
        else:
            W.forall_range(f"{tag}.x_is_matching_entries_of_x_array", [(0, n)], lambda idx, xv=xv, fixed=fixed: W.num_eq(W.elem(xv, (idx[0],)), X.at({l: v for l, v in {**fixed, "x": idx[0]}.items() if l in X.letters})))
    SL.check_unchanged(W, "plotter", snaps)


@unit(
    "plotter.figures_hold_the_lines.bounded",
    props=["C20"],
    targets=["flodym.export.array_plotter.PlotlyArrayPlotter.add_line", "flodym.export.array_plotter.PyplotArrayPlotter.add_line", "flodym.export.array_plotter.ArrayPlotter.plot"],
    skeletons=lambda tier: [{"lib": l, "naming": nm, "x": x, "chart": "line"} for l in ("plotly", "pyplot") for nm in ("names", "letters") for x in ("default", "x_array_permuted")]
    + [{"lib": l, "naming": "names", "x": x, "chart": c} for l in ("plotly", "pyplot") for x in ("default", "x_array_permuted") for c in (("scatter", "area") if l == "plotly" else ("scatter",))]
    + [{"lib": l, "naming": "letters", "x": "default", "chart": "line", "second_array": True} for l in ("plotly", "pyplot")],
    mode="bounded",
    note="chart types line / scatter (plotly: also area), titles, labels, colour maps and suppressed legends set at random; optionally a second array drawn into the figure of the first; real plotly / matplotlib figures: for every subplot item and line item there is a line whose y-data are the array entries and whose x-data are the items or the matching x_array entries",
)
def u_plotter_fig(W, sk):
    import numpy as np
    import matplotlib

    matplotlib.use("Agg")
    from matplotlib import pyplot as plt
    import flodym.export.array_plotter as ap
    from flodym.dimensions import Dimension, DimensionSet
    from flodym.flodym_arrays import FlodymArray

    rng = W.rng
    T = Dimension(name="Time", letter="t", items=[2000 + 2 * k for k in range(3)])
    R = Dimension(name="Region", letter="r", items=["EU", "US", "CN"])
    S_ = Dimension(name="Scenario", letter="s", items=["low", "mid", "high", "top", "peak"][: rng.choice([2, 3, 4, 5])])
    order = [T, R, S_]
    rng.shuffle(order)
    vals = np.array([rng.randint(1, 99) + rng.random() for _ in range(9 * len(S_.items))]).reshape([len(d.items) for d in order])
    arr = FlodymArray(dims=DimensionSet(dim_list=order), values=vals, name="y")
    nm = (lambda d: d.name) if sk["naming"] == "names" else (lambda d: d.letter)
    kw = dict(array=arr, intra_line_dim=nm(T), subplot_dim=nm(S_), linecolor_dim=nm(R))
    xa = None
    if sk["x"] == "x_array_permuted":
        xo = [R, T]
        xv = np.array([[10.0 * i + j for j in range(3)] for i in range(3)])
        xa = FlodymArray(dims=DimensionSet(dim_list=xo), values=xv, name="xv")
        kw["x_array"] = xa
    cls = ap.PlotlyArrayPlotter if sk["lib"] == "plotly" else ap.PyplotArrayPlotter
    chart = sk.get("chart", "line")
    kw["chart_type"] = chart
    if rng.random() < 0.5:
        kw["title"] = "a title"
    if rng.random() < 0.5:
        kw["xlabel"], kw["ylabel"] = "x label", "y label"
    if rng.random() < 0.3:
        kw["suppress_legend"] = True
    if rng.random() < 0.3:
        kw["color_map"] = ["red", "green", "blue", "black", "orange", "purple", "brown"]
    W.inputs["options"] = {k: str(v) for k, v in kw.items() if k not in ("array", "x_array")}
    out = W.call(lambda: cls(**kw).plot())
    W.prove("plot.returns", out.kind == "return", detail=repr(out))
    if out.kind != "return":
        return
    fig = out.value
    arr2 = None
    if sk.get("second_array"):
        # a second array over the same dimensions drawn into the same figure: its lines are added, the first ones stay
        arr2 = FlodymArray(dims=arr.dims, values=vals * 2.0 + 1.0, name="y2")
        kw2 = dict(kw, array=arr2, fig=fig)
        out2 = W.call(lambda: cls(**kw2).plot())
        W.prove("plot.second_array.returns", out2.kind == "return", detail=repr(out2))
        if out2.kind != "return":
            return
        fig = out2.value
    lines = []
    titles = []  # per line: the title of the subplot it is drawn in
    if sk["lib"] == "plotly":
        ann = list(fig.layout.annotations or [])

        def title_of(tr):
            xa_ = "xaxis" + (tr.xaxis or "x")[1:]
            ya_ = "yaxis" + (tr.yaxis or "y")[1:]
            xd, yd = fig.layout[xa_].domain, fig.layout[ya_].domain
            if xd is None or yd is None:
                return None
            for a in ann:
                if a.xref == "paper" and a.yref == "paper" and abs(a.x - (xd[0] + xd[1]) / 2) < 1e-9 and abs(a.y - yd[1]) < 1e-9:
                    return a.text
            return None

        for tr in fig.data:
            lines.append((list(tr.x), list(tr.y), tr.name))
            titles.append(title_of(tr))
    else:
        for ax in fig.axes:
            if chart == "scatter":
                for pc in ax.collections:
                    off = pc.get_offsets()
                    lines.append(([float(p[0]) for p in off], [float(p[1]) for p in off], pc.get_label()))
                    titles.append(ax.get_title())
            else:
                for ln in ax.get_lines():
                    lines.append((list(ln.get_xdata()), list(ln.get_ydata()), ln.get_label()))
                    titles.append(ax.get_title())
        plt.close(fig)
    # every line sits in the subplot whose title names the subplot item its y-data belong to
    by_y = {}
    for a_ in [arr] + ([arr2] if arr2 is not None else []):
        for s_item in S_.items:
            for r_item in R.items:
                by_y[tuple(float(a_[{"s": s_item, "r": r_item, "t": t}].values) for t in T.items)] = s_item
    placed = [(by_y.get(tuple(float(v) for v in ly)), tt) for (lx, ly, ln_), tt in zip(lines, titles)]
    W.prove(
        "figure.each_line_in_the_subplot_titled_with_its_subplot_item",
        all(si is None or tt is None or tt.split("=")[-1] == si for si, tt in placed) and any(tt is not None for _, tt in placed),
        detail=str([(si, tt) for si, tt in placed if si is not None and tt is not None and tt.split("=")[-1] != si][:3]),
    )
    suppressed = kw.get("suppress_legend", False) and sk["lib"] == "pyplot"

    def wanted(a):
        out_ = []
        for s in S_.items:
            for r in R.items:
                y = [float(a[{"s": s, "r": r, "t": t}].values) for t in T.items]
                x = [float(t) for t in T.items] if xa is None else [float(xa[{"r": r, "t": t}].values) for t in T.items]
                out_.append((x, y, r))
        return out_

    want = wanted(arr)
    if arr2 is not None:
        # per subplot: first the lines of the first array, then those of the second (pyplot: axes by axes;
        # plotly: traces in drawing order) -- compare as multisets per (x, y) to stay independent of that order
        want = want + wanted(arr2)
        key = lambda t: (tuple(t[0]), tuple(t[1]), t[2])
        lines, want = sorted(lines, key=key), sorted(want, key=key)
    if suppressed:
        lines = [(x, y, None) for x, y, _ in lines]
        want = [(x, y, None) for x, y, _ in want]
    W.prove("figure.one_line_per_subplot_item_and_line_item", len(lines) == len(want), detail=f"{len(lines)} vs {len(want)}")
    if len(lines) == len(want):
        W.prove("figure.lines_carry_the_entries_under_their_labels", all([float(a) for a in lx] == wx and [float(a) for a in ly] == wy and ln == wn for (lx, ly, ln), (wx, wy, wn) in zip(lines, want)), detail=str(lines[:1]) + " want " + str(want[:1]))
