"""Contracts for flodym/stocks.py (C03, C09, C10, C16, parts of C13/C15/C17).

Modularity: the stock classes are verified against the *contracts* of their two collaborators,
  * the time grid  (Stock._t.interval_lengths):  dt(k) > 0 for 0 <= k < n          [proved for UnevenTimeDim in contracts/lifetime.py]
  * the lifetime model (lifetime_model.sf / .pdf):  sf(t,c,r) = 0 for c > t, 0 <= sf <= 1, non-increasing in t,
        pdf(c,c,r) = 1 - sf(c,c,r), pdf(t,c,r) = sf(t-1,c,r) - sf(t,c,r) for t > c, 0 for c > t  [proved for LifetimeModel in contracts/lifetime.py]
installed as stub objects; the number of time steps n >= 3, the grid, the tables, the drivers and the sizes
of the extra dimensions are symbolic.  Skeleton: number of extra (non-time) dimensions 0..2.
In the concrete world the same unit code runs on real stock objects with real lifetime models and real grids.
"""
from __future__ import annotations

import itertools
import z3

from fvc import core, symnp, speclib as SL
from fvc.units import unit
from fvc.harness import Outcome
from fvc.core import to_int, to_real, wrap

EXTRA = "rg"


class FakeT:
    """stub for Stock._t (contract of UnevenTimeDim)"""

    def __init__(self, dt, dim):
        self.interval_lengths = dt
        self.dim = dim


class FakeLifetime:
    """stub for DynamicStockModel.lifetime_model (contract of LifetimeModel)"""

    def __init__(self, sf, pdf, dims):
        self.sf = sf
        self.pdf = pdf
        self.dims = dims
        self.checked = 0

    def _check_prms_set(self):
        self.checked += 1


class Setup:
    def __init__(self, W, kind, n_extra, solver="manual", positive_diag=True, concrete_extra=None):
        import flodym.stocks as st
        from flodym.flodym_arrays import StockArray
        from .dimensions import mk_set

        self.W = W
        self.kind = kind
        cls = {"flow": st.SimpleFlowDrivenStock, "inflow": st.InflowDrivenDSM, "stock": st.StockDrivenDSM}[kind]
        self.letters = "t" + EXTRA[:n_extra]
        if W.symbolic:
            T = W.dim("t", name="Time", lo=3)
            ex = []
            for j, l in enumerate(EXTRA[:n_extra]):
                if concrete_extra:
                    ex.append(W.dim(l, n=concrete_extra[j]))
                else:
                    ex.append(W.dim(l))
            self.dims = [T] + ex
            self.n = W.size_of(T)
            self.esizes = [W.size_of(d) for d in ex]
            stock = W.array("stock", self.dims, cls=StockArray)
            inflow = W.array("inflow", self.dims, cls=StockArray)
            outflow = W.array("outflow", self.dims, cls=StockArray)
            dt = W.ndarray("dt", [self.n])
            dtf = z3.Function("dt", z3.IntSort(), z3.RealSort())
            zn = to_int(self.n)
            W.c.add_trigger("dt", lambda k: z3.Implies(z3.And(k >= 0, k < zn), dtf(k) > 0))
            self.dt = dt
            args = dict(dims=mk_set(W, self.dims), stock=stock, inflow=inflow, outflow=outflow, name="s", process=None, time_letter="t")
            if kind != "flow":
                sf = W.ndarray("sf", [self.n, self.n] + self.esizes)
                sff = z3.Function("sf", *([z3.IntSort()] * (2 + n_extra)), z3.RealSort())

                def facts(t, c, *r):
                    fs = [z3.Implies(c > t, sff(t, c, *r) == 0), sff(t, c, *r) >= 0, sff(t, c, *r) <= 1]
                    fs.append(z3.Implies(z3.And(t >= c, t + 1 < zn), sff(t + 1, c, *r) <= sff(t, c, *r)))
                    fs.append(z3.Implies(z3.And(t > c), sff(t, c, *r) <= sff(t - 1, c, *r)))
                    if positive_diag:
                        fs.append(z3.Implies(z3.And(t == c, c >= 0, c < zn), sff(t, c, *r) > 0))
                    return z3.And(*fs)

                W.c.add_trigger("sf", facts)
                sfz = sf.frozen()

                def pdf_fn(idx):
                    t, c = to_int(idx[0]), to_int(idx[1])
                    r = tuple(idx[2:])
                    return z3.If(c > t, z3.RealVal(0), z3.If(c == t, 1 - sfz((t, c) + r), sfz((t - 1, c) + r) - sfz((t, c) + r)))

                pdf = symnp.SymArr.fresh([self.n, self.n] + self.esizes, pdf_fn)
                self.sf, self.pdf = sf, pdf
                args["lifetime_model"] = FakeLifetime(sf, pdf, args["dims"])
                if kind == "stock":
                    args["solver"] = solver
            s = cls.model_construct(**args)
            s._t = FakeT(dt, T)
            if kind != "flow":
                zero = symnp.SymArr.fresh([self.n, self.n] + self.esizes, lambda idx: z3.RealVal(0))
                s._stock_by_cohort = zero
                s._outflow_by_cohort = zero.copy()
            self.s = s
        else:
            import numpy as np
            from flodym.dimensions import Dimension, DimensionSet
            from flodym.lifetime_models import NormalLifetime, WeibullLifetime, LogNormalLifetime, FixedLifetime

            rng = W.rng
            n = W.sizes.get("t") or rng.choice([3, 4, 5, 6])
            n = max(3, int(n))
            grid = W.grid_kind if getattr(W, "grid_kind", None) else rng.choice(["unit", "const", "uneven"])
            self.grid = grid
            if grid == "unit":
                items = [2000 + k for k in range(n)]
            elif grid == "const":
                step = rng.choice([2, 5])
                items = [2000 + step * k for k in range(n)]
            else:
                items, y = [], 2000
                for k in range(n):
                    items.append(y)
                    y += rng.choice([1, 2, 3, 7])
            W.inputs["time_items"] = items
            T = Dimension(name="Time", letter="t", items=items, dtype=int)
            ex = [W.dim(l) for l in EXTRA[:n_extra]]
            self.dims = [T] + ex
            self.n = n
            self.esizes = [len(d.items) for d in ex]
            ds = DimensionSet(dim_list=self.dims)
            stock = W.array("stock", self.dims, cls=StockArray)
            inflow = W.array("inflow", self.dims, cls=StockArray)
            outflow = W.array("outflow", self.dims, cls=StockArray)
            if getattr(W, "nonneg_inflow", False):
                inflow.values[...] = np.abs(inflow.values)
            args = dict(dims=ds, stock=stock, inflow=inflow, outflow=outflow, name="s", time_letter="t")
            if kind != "flow":
                shape = tuple([n] + self.esizes)
                mean = np.array([[3.0 + rng.random() * 4 for _ in range(int(np.prod(shape[1:])) or 1)] for _ in range(n)]).reshape(shape)
                std = np.array([[0.8 + rng.random() for _ in range(int(np.prod(shape[1:])) or 1)] for _ in range(n)]).reshape(shape)
                which = rng.choice(["normal", "lognormal", "weibull"])
                if which == "normal":
                    lt = NormalLifetime(dims=ds, time_letter="t", mean=mean, std=std)
                elif which == "lognormal":
                    lt = LogNormalLifetime(dims=ds, time_letter="t", mean=mean, std=std)
                else:
                    lt = WeibullLifetime(dims=ds, time_letter="t", weibull_shape=1.0 + std, weibull_scale=mean)
                W.inputs["lifetime"] = which
                args["lifetime_model"] = lt
                if kind == "stock":
                    args["solver"] = solver
            s = cls(**args)
            self.s = s
            self.dt = np.array(s._t.interval_lengths)
            if kind != "flow":
                self.sf = np.array(s.lifetime_model.sf)
                self.pdf = np.array(s.lifetime_model.pdf)

    # readers (label level: index tuples (t, r...) )
    def rd(self, arr):
        W = self.W
        return lambda *idx: W.elem(arr, tuple(idx))

    def dtk(self, k):
        return self.W.elem(self.dt, (k,))

    def extra_ranges(self):
        return [(0, e) for e in self.esizes]


def sk_extra(tier, maxq=1, maxt=2):
    return [{"extra": k} for k in range(0, (maxt if tier == "thorough" else maxq) + 1)]


def balance_goal(W, S, stock, inflow, outflow, t, r):
    prev = W.ite(t > 0, stock(t - 1, *r), 0) if W.symbolic else (stock(t - 1, *r) if t > 0 else 0.0)
    return W.num_eq(stock(t, *r) - prev, S.dtk(t) * (inflow(t, *r) - outflow(t, *r)))


# ----------------------------------------------------------------------------------------
# C03: SimpleFlowDrivenStock


@unit(
    "stocks.flow_driven.compute",
    props=["C03", "C13", "C15"],
    targets=["flodym.stocks.SimpleFlowDrivenStock.compute", "flodym.stocks.SimpleFlowDrivenStock._check_needed_arrays", "flodym.stocks.Stock._to_whole_period"],
    skeletons=lambda tier: sk_extra(tier, 2, 2),
    stubs=["flodym.lifetime_models.UnevenTimeDim.interval_lengths"],
)
def u_flow_driven(W, sk):
    S = Setup(W, "flow", sk["extra"])
    s = S.s
    inflow0, outflow0 = S.rd(s.inflow.values.copy()), S.rd(s.outflow.values.copy())
    snaps = SL.snapshot(W, [s.inflow, s.outflow])
    vobj = s.stock.values
    out = W.call(lambda: s.compute())
    W.prove("compute.returns", out.kind == "return", detail=repr(out))
    SL.check_unchanged(W, "compute", snaps)
    if not SL.check_wf(W, "compute.stock", s.stock):
        return
    stock = S.rd(s.stock.values)

    if W.symbolic:
        t = W.fresh_int("bt", 0, S.n)
        r = tuple(W.fresh_int(f"br{j}", 0, e) for j, e in enumerate(S.esizes))
        f = lambda k: (inflow0(k, *r) - outflow0(k, *r)) * S.dtk(k)
        W.lemma_sum_unfold_last("balance.unfold", 0, t + 1, f)
        W.prove("compute.mass_balance", balance_goal(W, S, stock, inflow0, outflow0, t, r), detail="stock(t) - stock(t-1) = dt(t) * (inflow(t) - outflow(t))")
    else:
        W.forall_range("compute.mass_balance", [(0, S.n)] + S.extra_ranges(), lambda idx: balance_goal(W, S, stock, inflow0, outflow0, idx[0], idx[1:]), detail="stock(t) - stock(t-1) = dt(t) * (inflow(t) - outflow(t))")

    # cumulative inflow minus cumulative outflow equals the stock
    def pred2(idx):
        t, r = idx[0], idx[1:]
        cum = W.sum1("k", 0, t + 1, lambda k: S.dtk(k) * inflow0(k, *r)) - W.sum1("k", 0, t + 1, lambda k: S.dtk(k) * outflow0(k, *r))
        return W.num_eq(stock(t, *r), cum)

    W.forall_range("compute.cumulative", [(0, S.n)] + S.extra_ranges(), pred2)


# ----------------------------------------------------------------------------------------
# dynamic stock models: shared postconditions


def check_tables(W, S, name, inflow, whole_period_inflow=True):
    """C09 clauses about the cohort tables and totals (after compute)."""
    s = S.s
    n = S.n
    sbc_arr = s.get_stock_by_cohort()
    obc_arr = s.get_outflow_by_cohort()
    W.prove(f"{name}.accessors_return_stored_tables", sbc_arr is s._stock_by_cohort and obc_arr is s._outflow_by_cohort)
    ok = W.is_ndarray(sbc_arr) and W.is_ndarray(obc_arr)
    W.prove(f"{name}.tables_are_arrays", ok)
    if not ok:
        return None
    for nm, arr in (("stock_by_cohort", sbc_arr), ("outflow_by_cohort", obc_arr)):
        shp = W.shape_of(arr)
        ok = len(shp) == 2 + len(S.esizes)
        W.prove(f"{name}.{nm}.rank", ok)
        if not ok:
            return None
        for j, want in enumerate([n, n] + S.esizes):
            W.prove(f"{name}.{nm}.shape[{j}]", W.size_eq(shp[j], want))
    sbc, obc = S.rd(sbc_arr), S.rd(obc_arr)
    stock, outflow = S.rd(s.stock.values), S.rd(s.outflow.values)
    sf, pdf = S.rd(S.sf), S.rd(S.pdf)
    rngs = [(0, n), (0, n)] + S.extra_ranges()
    W.forall_range(
        f"{name}.stock_by_cohort.formula",
        rngs,
        lambda idx: W.num_eq(sbc(*idx), inflow(idx[1], *idx[2:]) * S.dtk(idx[1]) * sf(*idx)),
        detail="cohort stock = inflow rate x interval length x survival share",
    )
    W.forall_range(f"{name}.stock_by_cohort.zero_for_later_cohorts", rngs, lambda idx: W.implies(idx[1] > idx[0], W.num_eq(sbc(*idx), 0)))
    W.forall_range(f"{name}.outflow_by_cohort.zero_for_later_cohorts", rngs, lambda idx: W.implies(idx[1] > idx[0], W.num_eq(obc(*idx), 0)))
    W.forall_range(
        f"{name}.stock_is_sum_of_cohorts",
        [(0, n)] + S.extra_ranges(),
        lambda idx: W.num_eq(stock(*idx), W.sum1("c", 0, n, lambda c: sbc(idx[0], c, *idx[1:]))),
    )
    W.forall_range(
        f"{name}.outflow_is_sum_of_cohorts",
        [(0, n)] + S.extra_ranges(),
        lambda idx: W.num_eq(outflow(*idx), W.sum1("c", 0, n, lambda c: obc(idx[0], c, *idx[1:]))),
    )

    # a cohort's stock never increases over time for non-negative inflow
    def mono(idx):
        t, c, r = idx[0], idx[1], idx[2:]
        hyp = W.b_and(t >= c, t + 1 < n, inflow(c, *r) >= 0)
        if W.symbolic:
            return W.implies(hyp, sbc(t + 1, c, *r) <= sbc(t, c, *r))
        return (not hyp) or sbc(t + 1, c, *r) <= sbc(t, c, *r) + 1e-9

    W.forall_range(f"{name}.cohort_stock_never_increases", rngs, mono)

    # cohort conservation: what entered = what is still in stock + what has left so far
    if W.symbolic:
        c = W.fresh_int("cc_c", 0, n)
        t = W.fresh_int("cc_t", c, n)
        r = tuple(W.fresh_int(f"cc_r{j}", 0, e) for j, e in enumerate(S.esizes))
        g = lambda k: obc(k, c, *r) * S.dtk(k)
        h = lambda k: inflow(c, *r) * S.dtk(c) * pdf(k, c, *r)
        W.lemma_sum_ext(f"{name}.cohort_conservation.outflow_terms", c, t + 1, g, h)
        G = lambda k: W.ite(k < c, 1, sf(k, c, *r))
        W.lemma_sum_ext(f"{name}.cohort_conservation.pdf_as_differences", c, t + 1, lambda k: pdf(k, c, *r), lambda k: G(k - 1) - G(k))
        W.lemma_telescope(f"{name}.cohort_conservation.telescope", c, t + 1, G)
        goal = W.num_eq(inflow(c, *r) * S.dtk(c), sbc(t, c, *r) + W.sum1("k", c, t + 1, g))
        W.prove(f"{name}.cohort_conservation", goal, detail="inflow(c) dt(c) = stock_by_cohort(t,c) + sum_{c<=k<=t} outflow_by_cohort(k,c) dt(k)")
    else:

        def conserve(idx):
            t, c, r = idx[0], idx[1], idx[2:]
            if t < c:
                return True
            left = sum(obc(k, c, *r) * S.dtk(k) for k in range(int(c), int(t) + 1))
            return W.num_eq(inflow(c, *r) * S.dtk(c), sbc(t, c, *r) + left)

        W.forall_range(f"{name}.cohort_conservation", rngs, conserve, detail="inflow(c) dt(c) = stock_by_cohort(t,c) + sum outflow_by_cohort(k,c) dt(k)")
    return sbc, obc


def check_balance_from_cohorts(W, S, name, inflow):
    """C03 for the dynamic models, from  stock[t] = sum_c sbc[t,c]  and  outflow[t] = sum_c obc[t,c]:
    reduced by SUM-EXT / SUM-DELTA to the pointwise cohort identity."""
    s = S.s
    n = S.n
    sbc, obc = S.rd(s._stock_by_cohort), S.rd(s._outflow_by_cohort)
    stock, outflow = S.rd(s.stock.values), S.rd(s.outflow.values)
    rngs = [(0, n)] + S.extra_ranges()
    if not W.symbolic:
        W.forall_range(f"{name}.mass_balance", rngs, lambda idx: balance_goal(W, S, stock, inflow, outflow, idx[0], idx[1:]), detail="stock(t) - stock(t-1) = dt(t) * (inflow(t) - outflow(t))")
        return
    idx = [W.fresh_int(f"b{j}", lo, hi) for j, (lo, hi) in enumerate(rngs)]
    t, r = idx[0], tuple(idx[1:])
    first = bool(t == 0)  # case split (forks the path): no conditional inside the sums
    prev_sbc = (lambda c: 0) if first else (lambda c: sbc(t - 1, c, *r))
    f = lambda c: sbc(t, c, *r) - prev_sbc(c) + S.dtk(t) * obc(t, c, *r)
    X = S.dtk(t) * inflow(t, *r)
    g = lambda c: W.ite(c == t, X, 0)
    W.lemma_sum_ext(f"{name}.mass_balance.cohort_identity", 0, n, f, g)
    W.lemma_sum_delta(f"{name}.mass_balance.delta", 0, n, t, X)
    # link totals to the table sums at t and t-1 (instances of the two 'sum of cohorts' clauses)
    W.c.assume(to_real(stock(t, *r)) == to_real(W.sum1("c", 0, n, lambda c: sbc(t, c, *r))), why="stock_is_sum_of_cohorts (proved above)")
    if not first:
        W.c.assume(to_real(stock(t - 1, *r)) == to_real(W.sum1("c", 0, n, lambda c: sbc(t - 1, c, *r))), why="stock_is_sum_of_cohorts (proved above)")
    W.c.assume(to_real(outflow(t, *r)) == to_real(W.sum1("c", 0, n, lambda c: obc(t, c, *r))), why="outflow_is_sum_of_cohorts (proved above)")
    goal = balance_goal(W, S, stock, inflow, outflow, t, r)
    W.c.prove(f"{name}.mass_balance", core.as_z3_bool(goal), detail="stock(t) - stock(t-1) = dt(t) * (inflow(t) - outflow(t))")


# ----------------------------------------------------------------------------------------
# InflowDrivenDSM


@unit(
    "stocks.inflow_driven.compute",
    props=["C03", "C09", "C13", "C15"],
    targets=[
        "flodym.stocks.InflowDrivenDSM.compute",
        "flodym.stocks.InflowDrivenDSM._compute_stock",
        "flodym.stocks.InflowDrivenDSM._check_needed_arrays",
        "flodym.stocks.DynamicStockModel._compute_outflow",
        "flodym.stocks.DynamicStockModel._check_needed_arrays",
        "flodym.stocks.DynamicStockModel.get_stock_by_cohort",
        "flodym.stocks.DynamicStockModel.get_outflow_by_cohort",
        "flodym.stocks.Stock._to_whole_period",
        "flodym.stocks.Stock._to_annual",
    ],
    skeletons=lambda tier: sk_extra(tier, 1, 2),
    stubs=["flodym.lifetime_models.LifetimeModel.sf", "flodym.lifetime_models.LifetimeModel.pdf", "flodym.lifetime_models.UnevenTimeDim.interval_lengths"],
)
def u_inflow_driven(W, sk):
    S = Setup(W, "inflow", sk["extra"])
    s = S.s
    inflow0 = S.rd(s.inflow.values.copy())
    snaps = SL.snapshot(W, [s.inflow])
    out = W.call(lambda: s.compute())
    W.prove("compute.returns", out.kind == "return", detail=repr(out))
    if out.kind != "return":
        return
    SL.check_unchanged(W, "compute", snaps)
    if not (SL.check_wf(W, "compute.stock", s.stock) and SL.check_wf(W, "compute.outflow", s.outflow)):
        return
    if check_tables(W, S, "compute", inflow0) is None:
        return
    check_balance_from_cohorts(W, S, "compute", inflow0)
