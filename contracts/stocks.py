"""Contracts for flodym/stocks.py (C03, C09, C10, C16, parts of C13/C15/C17).

Modularity: the stock classes are verified against the *contracts* of their two collaborators,
  * the time grid  (Stock._t.interval_lengths):  dt(k) > 0 for 0 <= k < n          [proved for UnevenTimeDim in contracts/lifetime.py]
  * the lifetime model (lifetime_model.sf / .pdf):  sf(t,c,r) = 0 for c > t, 0 <= sf <= 1, non-increasing in t,
        pdf(c,c,r) = 1 - sf(c,c,r), pdf(t,c,r) = sf(t-1,c,r) - sf(t,c,r) for t > c, 0 for c > t  [proved for LifetimeModel in contracts/lifetime.py]
installed as stub objects; the number of time steps n >= 3, the grid, the tables, the drivers and the sizes
of the extra dimensions are symbolic.  Skeleton: number of extra (non-time) dimensions 0..2.
In the concrete world the same unit code runs on real stock objects with real lifetime models and real grids.
"""
from __future__ import annotations

import itertools
import z3

from fvc import core, symnp, speclib as SL
from fvc.units import unit
from fvc.harness import Outcome
from fvc.core import to_int, to_real, wrap

EXTRA = "rg"


class FakeT:
    """stub for Stock._t (contract of UnevenTimeDim)"""

    def __init__(self, dt, dim):
        self.interval_lengths = dt
        self.dim = dim


class FakeLifetime:
    """stub for DynamicStockModel.lifetime_model (contract of LifetimeModel)"""

    def __init__(self, sf, pdf, dims):
        self.sf = sf
        self.pdf = pdf
        self.dims = dims
        self.checked = 0

    def _check_prms_set(self):
        self.checked += 1


class Setup:
    def __init__(self, W, kind, n_extra, solver="manual", positive_diag=True, concrete_extra=None, preset=None, tag="", lifetime_spec=None, zero_diag_label=None, int_ok=False):
        import flodym.stocks as st
        from flodym.flodym_arrays import StockArray
        from .dimensions import mk_set

        self.W = W
        self.kind = kind
        cls = {"flow": st.SimpleFlowDrivenStock, "inflow": st.InflowDrivenDSM, "stock": st.StockDrivenDSM}[kind]
        self.letters = "t" + EXTRA[:n_extra]
        if W.symbolic:
            T = W.dim("t", name="Time", lo=3)
            ex = []
            for j, l in enumerate(EXTRA[:n_extra]):
                if concrete_extra:
                    ex.append(W.dim(l, n=concrete_extra[j]))
                else:
                    ex.append(W.dim(l))
            self.dims = [T] + ex
            self.n = W.size_of(T)
            self.esizes = [W.size_of(d) for d in ex]
            self.r0 = tuple(W.fresh_int(f"r0_{j}{tag}", 0, e) for j, e in enumerate(self.esizes)) if positive_diag == "only_r0" else None
            r0z = [to_int(a) for a in self.r0] if self.r0 is not None else None
            from fvc import world as _world

            preset = preset or {}

            def mk(nm):
                if nm in preset:
                    return _world.make_array(nm + tag, self.dims, cls=StockArray, values=preset[nm])
                return W.array(nm + tag, self.dims, cls=StockArray)

            stock, inflow, outflow = mk("stock"), mk("inflow"), mk("outflow")
            dt = W.ndarray("dt", [self.n])
            dtf = z3.Function("dt", z3.IntSort(), z3.RealSort())
            zn = to_int(self.n)
            W.c.add_trigger("dt", lambda k: z3.Implies(z3.And(k >= 0, k < zn), dtf(k) > 0))
            self.dt = dt
            args = dict(dims=mk_set(W, self.dims), stock=stock, inflow=inflow, outflow=outflow, name="s", process=None, time_letter="t")
            if kind != "flow" and "sf" in preset:
                self.sf, self.pdf = preset["sf"], preset["pdf"]
                args["lifetime_model"] = FakeLifetime(self.sf, self.pdf, args["dims"])
                if kind == "stock":
                    args["solver"] = solver
            elif kind != "flow":
                sf = W.ndarray("sf", [self.n, self.n] + self.esizes)
                sff = z3.Function("sf", *([z3.IntSort()] * (2 + n_extra)), z3.RealSort())

                def facts(t, c, *r):
                    fs = [z3.Implies(c > t, sff(t, c, *r) == 0), sff(t, c, *r) >= 0, sff(t, c, *r) <= 1]
                    fs.append(z3.Implies(z3.And(t >= c, t + 1 < zn), sff(t + 1, c, *r) <= sff(t, c, *r)))
                    fs.append(z3.Implies(z3.And(t > c), sff(t, c, *r) <= sff(t - 1, c, *r)))
                    if positive_diag == "only_r0":
                        fs.append(z3.Implies(z3.And(t == c, c >= 0, c < zn, *[a == b for a, b in zip(r, r0z)]), sff(t, c, *r) > 0))
                    elif positive_diag:
                        fs.append(z3.Implies(z3.And(t == c, c >= 0, c < zn), sff(t, c, *r) > 0))
                    return z3.And(*fs)

                W.c.add_trigger("sf", facts)
                sfz = sf.frozen()

                def pdf_fn(idx):
                    t, c = to_int(idx[0]), to_int(idx[1])
                    r = tuple(idx[2:])
                    return z3.If(c > t, z3.RealVal(0), z3.If(c == t, 1 - sfz((t, c) + r), sfz((t - 1, c) + r) - sfz((t, c) + r)))

                pdf = symnp.SymArr.fresh([self.n, self.n] + self.esizes, pdf_fn)
                self.sf, self.pdf = sf, pdf
                args["lifetime_model"] = FakeLifetime(sf, pdf, args["dims"])
                if kind == "stock":
                    args["solver"] = solver
            s = cls.model_construct(**args)
            s._t = FakeT(dt, T)
            if kind != "flow":
                # arbitrary previous contents (the object may have been computed before with other inputs)
                s._stock_by_cohort = symnp.SymArr.input("old_sbc" + tag, tuple([self.n, self.n] + self.esizes))
                s._outflow_by_cohort = symnp.SymArr.input("old_obc" + tag, tuple([self.n, self.n] + self.esizes))
            self.s = s
            if kind != "flow":
                self._table_versions = [(a, a._buf.version) for a in (self.sf, self.pdf) if hasattr(a, "_buf")]
        else:
            import numpy as np
            from flodym.dimensions import Dimension, DimensionSet
            from flodym.lifetime_models import NormalLifetime, WeibullLifetime, LogNormalLifetime, FixedLifetime

            rng = W.rng
            preset = preset or {}
            if "time_items" in W.inputs:
                items = W.inputs["time_items"]
                n = len(items)
            else:
                n = W.sizes.get("t") or rng.choice([3, 4, 5, 6])
                n = max(3, int(n))
                grid = W.grid_kind if getattr(W, "grid_kind", None) else rng.choice(["unit", "const", "uneven"])
                self.grid = grid
                if grid == "unit":
                    items = [2000 + k for k in range(n)]
                elif grid == "const":
                    step = rng.choice([2, 5])
                    items = [2000 + step * k for k in range(n)]
                else:
                    items, y = [], 2000
                    for k in range(n):
                        items.append(y)
                        y += rng.choice([1, 2, 3, 7])
                    if n >= 4 and not W.sizes.get("t") and rng.random() < 0.3:
                        items = SL.span_trap_grid(rng, n, 2000)
                W.inputs["time_items"] = items
            T = Dimension(name="Time", letter="t", items=items, dtype=int)
            ex = [W.dim(l) for l in EXTRA[:n_extra]]
            self.dims = [T] + ex
            self.n = n
            self.esizes = [len(d.items) for d in ex]
            ds = DimensionSet(dim_list=self.dims)
            def mkc(nm):
                if nm in preset:
                    return StockArray(dims=ds, values=np.array(preset[nm], dtype=float, copy=True), name=nm)
                if nm + "_values" in W.inputs and tag and np.shape(W.inputs[nm + "_values"]) == ds.shape:
                    return StockArray(dims=ds, values=np.array(W.inputs[nm + "_values"], dtype=float), name=nm)
                a = W.array(nm, self.dims, cls=StockArray)
                W.inputs[nm + ("_values" if nm + "_values" not in W.inputs else tag + "_values")] = a.values.tolist()
                return a

            stock, inflow, outflow = mkc("stock"), mkc("inflow"), mkc("outflow")
            if int_ok and getattr(W, "int_driver", False) and kind in ("inflow", "stock") and not preset:
                # the driver holds whole numbers in an integer-typed array (e.g. read from a table of counts)
                drv = inflow if kind == "inflow" else stock
                iv = np.round(np.array(drv.values) * 4).astype(np.int64)
                if kind == "stock":
                    drv = StockArray(dims=ds, values=iv, name="stock")
                    stock = drv
                else:
                    drv = StockArray(dims=ds, values=iv, name="inflow")
                    inflow = drv
                W.inputs[kind + "_values"] = iv.tolist()
                W.inputs["driver_dtype"] = "int64"
            if getattr(W, "nonneg_inflow", False):
                inflow.values[...] = np.abs(inflow.values)
            args = dict(dims=ds, stock=stock, inflow=inflow, outflow=outflow, name="s", time_letter="t")
            if kind != "flow" and getattr(W, "_shared_lifetime", None) is not None and lifetime_spec is None:
                args["lifetime_model"] = W._shared_lifetime
                if kind == "stock":
                    args["solver"] = solver
            elif kind != "flow":
                shape = tuple([n] + self.esizes)
                if lifetime_spec is not None:
                    which, mean, std = lifetime_spec
                else:
                    mean = np.array([[3.0 + rng.random() * 4 for _ in range(int(np.prod(shape[1:])) or 1)] for _ in range(n)]).reshape(shape)
                    std = np.array([[0.8 + rng.random() for _ in range(int(np.prod(shape[1:])) or 1)] for _ in range(n)]).reshape(shape)
                    which = rng.choice(["normal", "lognormal", "weibull"])
                    if zero_diag_label is not None:
                        # one label combination whose lifetime is far shorter than a time step: sf[c, c] = 0 there
                        which = "normal"
                        mean[(slice(None),) + tuple(zero_diag_label)] = 0.01
                        std[(slice(None),) + tuple(zero_diag_label)] = 0.001
                self.lifetime_spec = (which, mean, std)
                # where in its interval a cohort enters / how many quadrature points: any setting of the lifetime model
                # (drawn once per run: the twin and fresh models of a unit are built with the same options)
                if getattr(W, "_lifetime_opts", None) is None:
                    W._lifetime_opts = dict(inflow_at=rng.choice(["start", "middle", "middle", "end"]), n_pts_per_interval=rng.choice([1, 1, 2, 3]))
                lopts = dict(W._lifetime_opts)
                self.lifetime_opts = lopts
                if which == "normal":
                    lt = NormalLifetime(dims=ds, time_letter="t", mean=mean, std=std, **lopts)
                elif which == "lognormal":
                    lt = LogNormalLifetime(dims=ds, time_letter="t", mean=mean, std=std, **lopts)
                else:
                    lt = WeibullLifetime(dims=ds, time_letter="t", weibull_shape=1.0 + std, weibull_scale=mean, **lopts)
                W.inputs["lifetime" + tag] = which
                W.inputs["lifetime_options"] = {k: str(v) for k, v in lopts.items()}
                if lifetime_spec is None:
                    W._shared_lifetime = lt
                args["lifetime_model"] = lt
                if kind == "stock":
                    args["solver"] = solver
            s = cls(**args)
            self.s = s
            self.dt = np.array(s._t.interval_lengths)
            if kind != "flow" and getattr(W, "prior_history", True):
                # the object has been computed before with another driver (the symbolic runs start from arbitrary
                # previous results as well): compute once with a random driver, then put the inputs back
                keep = {nm: np.array(getattr(s, nm).values, copy=True) for nm in ("stock", "inflow", "outflow")}
                drv = "inflow" if kind == "inflow" else "stock"
                getattr(s, drv).values[...] = np.array([3.0 + 5 * rng.random() for _ in range(keep[drv].size)]).reshape(keep[drv].shape)
                # on about half of the runs that earlier computation also used other lifetime parameters, and the
                # parameters of this run were put in place by set_prms afterwards (scenario / sensitivity loop)
                spec_ = getattr(self, "lifetime_spec", None)
                other_prms = spec_ is not None and rng.random() < 0.5
                if other_prms:
                    which_, mean_, std_ = spec_
                    mk_ = (lambda m_, s_: dict(weibull_shape=1.0 + s_, weibull_scale=m_)) if which_ == "weibull" else (lambda m_, s_: dict(mean=m_, std=s_))
                    try:
                        s.lifetime_model.set_prms(**mk_(np.array(mean_) * 1.6 + 0.4, np.array(std_) * 0.6 + 0.3))
                    except Exception:
                        pass
                try:
                    with np.errstate(all="ignore"):
                        s.compute()
                except Exception:
                    pass
                if other_prms:
                    try:
                        s.lifetime_model.set_prms(**mk_(np.array(mean_, copy=True), np.array(std_, copy=True)))
                    except Exception:
                        pass
                for nm, v in keep.items():
                    getattr(s, nm).values[...] = v
                W.inputs["history" + tag] = "compute() ran once before with another driver" + (" and other lifetime parameters (then set_prms)" if other_prms else "")
            if kind != "flow":
                self.sf = np.array(s.lifetime_model.sf)
                self.pdf = np.array(s.lifetime_model.pdf)

    # readers (label level: index tuples (t, r...) )
    def rd(self, arr):
        W = self.W
        return lambda *idx: W.elem(arr, tuple(idx))

    def dtk(self, k):
        return self.W.elem(self.dt, (k,))

    def extra_ranges(self):
        return [(0, e) for e in self.esizes]


def check_lifetime_tables_unchanged(W, S, name):
    """compute() only reads the survival and outflow-probability tables of the lifetime model it was given (the
    model may be shared with other stocks and is asked for its tables again later)"""
    if S.kind == "flow":
        return
    if W.symbolic:
        ok = all(getattr(a, "_buf", None) is None or a._buf.version == v for a, v in getattr(S, "_table_versions", []))
        W.prove(f"{name}.lifetime_tables_not_written", ok, kind="frame", detail="a survival / outflow table of the lifetime model was written to")
    else:
        import numpy as np

        lm = S.s.lifetime_model
        ok = bool(np.array_equal(np.array(lm.sf), S.sf, equal_nan=True)) and bool(np.array_equal(np.array(lm.pdf), S.pdf, equal_nan=True))
        spec = getattr(S, "lifetime_spec", None)
        if ok and spec is not None:
            # ... and equal to the tables of an identical model that no stock has ever used
            from flodym.lifetime_models import NormalLifetime, WeibullLifetime, LogNormalLifetime

            which, mean, std = spec
            lopts = dict(getattr(S, "lifetime_opts", {}))
            if which == "normal":
                fresh = NormalLifetime(dims=lm.dims, time_letter="t", mean=mean, std=std, **lopts)
            elif which == "lognormal":
                fresh = LogNormalLifetime(dims=lm.dims, time_letter="t", mean=mean, std=std, **lopts)
            else:
                fresh = WeibullLifetime(dims=lm.dims, time_letter="t", weibull_shape=1.0 + std, weibull_scale=mean, **lopts)
            ok = bool(np.array_equal(np.array(lm.sf), np.array(fresh.sf), equal_nan=True)) and bool(np.array_equal(np.array(lm.pdf), np.array(fresh.pdf), equal_nan=True))
        W.prove(f"{name}.lifetime_tables_not_written", ok, kind="frame", detail="the lifetime model's tables differ from what they were before compute() / from those of an identical unused model")


def sk_extra(tier, maxq=1, maxt=2):
    return [{"extra": k} for k in range(0, (maxt if tier == "thorough" else maxq) + 1)]


def balance_goal(W, S, stock, inflow, outflow, t, r):
    prev = W.ite(t > 0, stock(t - 1, *r), 0) if W.symbolic else (stock(t - 1, *r) if t > 0 else 0.0)
    return W.num_eq(stock(t, *r) - prev, S.dtk(t) * (inflow(t, *r) - outflow(t, *r)))


# ----------------------------------------------------------------------------------------
# C03: SimpleFlowDrivenStock


@unit(
    "stocks.flow_driven.compute",
    props=["C03", "C13", "C15"],
    targets=["flodym.stocks.SimpleFlowDrivenStock.compute", "flodym.stocks.SimpleFlowDrivenStock._check_needed_arrays", "flodym.stocks.Stock._to_whole_period"],
    skeletons=lambda tier: sk_extra(tier, 2, 2),
    stubs=["flodym.lifetime_models.UnevenTimeDim.interval_lengths"],
)
def u_flow_driven(W, sk):
    S = Setup(W, "flow", sk["extra"])
    s = S.s
    inflow0, outflow0 = S.rd(s.inflow.values.copy()), S.rd(s.outflow.values.copy())
    snaps = SL.snapshot(W, [s.inflow, s.outflow])
    vobj = s.stock.values
    out = W.call(lambda: s.compute())
    W.prove("compute.returns", out.kind == "return", detail=repr(out))
    SL.check_unchanged(W, "compute", snaps)
    if not SL.check_wf(W, "compute.stock", s.stock):
        return
    stock = S.rd(s.stock.values)

    if W.symbolic:
        t = W.fresh_int("bt", 0, S.n)
        r = tuple(W.fresh_int(f"br{j}", 0, e) for j, e in enumerate(S.esizes))
        f = lambda k: (inflow0(k, *r) - outflow0(k, *r)) * S.dtk(k)
        W.lemma_sum_unfold_last("balance.unfold", 0, t + 1, f)
        W.prove("compute.mass_balance", balance_goal(W, S, stock, inflow0, outflow0, t, r), detail="stock(t) - stock(t-1) = dt(t) * (inflow(t) - outflow(t))")
    else:
        W.forall_range("compute.mass_balance", [(0, S.n)] + S.extra_ranges(), lambda idx: balance_goal(W, S, stock, inflow0, outflow0, idx[0], idx[1:]), detail="stock(t) - stock(t-1) = dt(t) * (inflow(t) - outflow(t))")

    # cumulative inflow minus cumulative outflow equals the stock
    def pred2(idx):
        t, r = idx[0], idx[1:]
        cum = W.sum1("k", 0, t + 1, lambda k: S.dtk(k) * inflow0(k, *r)) - W.sum1("k", 0, t + 1, lambda k: S.dtk(k) * outflow0(k, *r))
        return W.num_eq(stock(t, *r), cum)

    W.forall_range("compute.cumulative", [(0, S.n)] + S.extra_ranges(), pred2)


# ----------------------------------------------------------------------------------------
# dynamic stock models: shared postconditions


def check_tables(W, S, name, inflow, stock_rep=False):
    """C09 clauses about the cohort tables and totals (after compute)."""
    s = S.s
    n = S.n
    sbc_arr = s.get_stock_by_cohort()
    obc_arr = s.get_outflow_by_cohort()
    W.prove(f"{name}.accessors_return_stored_tables", sbc_arr is s._stock_by_cohort and obc_arr is s._outflow_by_cohort)
    ok = W.is_ndarray(sbc_arr) and W.is_ndarray(obc_arr)
    W.prove(f"{name}.tables_are_arrays", ok)
    if not ok:
        return None
    for nm, arr in (("stock_by_cohort", sbc_arr), ("outflow_by_cohort", obc_arr)):
        shp = W.shape_of(arr)
        ok = len(shp) == 2 + len(S.esizes)
        W.prove(f"{name}.{nm}.rank", ok)
        if not ok:
            return None
        for j, want in enumerate([n, n] + S.esizes):
            W.prove(f"{name}.{nm}.shape[{j}]", W.size_eq(shp[j], want))
    sbc, obc = S.rd(sbc_arr), S.rd(obc_arr)
    stock, outflow = S.rd(s.stock.values), S.rd(s.outflow.values)
    sf, pdf = S.rd(S.sf), S.rd(S.pdf)
    rngs = [(0, n), (0, n)] + S.extra_ranges()
    W.forall_range(
        f"{name}.stock_by_cohort.formula",
        rngs,
        lambda idx: W.num_eq(sbc(*idx), inflow(idx[1], *idx[2:]) * S.dtk(idx[1]) * sf(*idx)),
        detail="cohort stock = inflow rate x interval length x survival share",
    )
    W.forall_range(f"{name}.stock_by_cohort.zero_for_later_cohorts", rngs, lambda idx: W.implies(idx[1] > idx[0], W.num_eq(sbc(*idx), 0)))
    W.forall_range(f"{name}.outflow_by_cohort.zero_for_later_cohorts", rngs, lambda idx: W.implies(idx[1] > idx[0], W.num_eq(obc(*idx), 0)))
    if stock_rep and W.symbolic:
        # stock-driven model: the stock is prescribed; its representation as the sum over all cohorts was
        # proved above (compute.stock_reproduced), the table entries equal the summands (formula above)
      for rr in W.index_choices("sr_r", S.esizes):
        tagr = "" if not any(isinstance(a, int) for a in rr) else f"[{','.join(map(str, rr))}]"
        tt = W.fresh_int("sr_t", 0, n)
        W.lemma_sum_ext(f"{name}.stock_is_sum_of_cohorts{tagr}.summands", 0, n, lambda c: sbc(tt, c, *rr), lambda c: inflow(c, *rr) * S.dtk(c) * sf(tt, c, *rr))
        W.c.assume(to_real(stock(tt, *rr)) == to_real(W.sum1("c", 0, n, lambda c: inflow(c, *rr) * S.dtk(c) * sf(tt, c, *rr))), why="compute.stock_reproduced (proved above, universally)")
        W.prove(f"{name}.stock_is_sum_of_cohorts{tagr}", W.num_eq(stock(tt, *rr), W.sum1("c", 0, n, lambda c: sbc(tt, c, *rr))))
    else:
        W.forall_range(
            f"{name}.stock_is_sum_of_cohorts",
            [(0, n)] + S.extra_ranges(),
            lambda idx: W.num_eq(stock(*idx), W.sum1("c", 0, n, lambda c: sbc(idx[0], c, *idx[1:]))),
        )
    W.forall_range(
        f"{name}.outflow_is_sum_of_cohorts",
        [(0, n)] + S.extra_ranges(),
        lambda idx: W.num_eq(outflow(*idx), W.sum1("c", 0, n, lambda c: obc(idx[0], c, *idx[1:]))),
    )

    # a cohort's stock never increases over time for non-negative inflow
    def mono(idx):
        t, c, r = idx[0], idx[1], idx[2:]
        hyp = W.b_and(t >= c, t + 1 < n, inflow(c, *r) >= 0)
        if W.symbolic:
            return W.implies(hyp, sbc(t + 1, c, *r) <= sbc(t, c, *r))
        return (not hyp) or sbc(t + 1, c, *r) <= sbc(t, c, *r) + 1e-9

    W.forall_range(f"{name}.cohort_stock_never_increases", rngs, mono)

    # cohort conservation: what entered = what is still in stock + what has left so far
    if W.symbolic:
      for r in W.index_choices("cc_r", S.esizes):
        tagr = "" if not any(isinstance(a, int) for a in r) else f"[{','.join(map(str, r))}]"
        c = W.fresh_int("cc_c", 0, n)
        t = W.fresh_int("cc_t", c, n)
        g = lambda k: obc(k, c, *r) * S.dtk(k)
        h = lambda k: inflow(c, *r) * S.dtk(c) * pdf(k, c, *r)
        W.lemma_sum_ext(f"{name}.cohort_conservation{tagr}.outflow_terms", c, t + 1, g, h)
        G = lambda k: W.ite(k < c, 1, sf(k, c, *r))
        W.lemma_sum_ext(f"{name}.cohort_conservation{tagr}.pdf_as_differences", c, t + 1, lambda k: pdf(k, c, *r), lambda k: G(k - 1) - G(k))
        W.lemma_telescope(f"{name}.cohort_conservation{tagr}.telescope", c, t + 1, G)
        goal = W.num_eq(inflow(c, *r) * S.dtk(c), sbc(t, c, *r) + W.sum1("k", c, t + 1, g))
        W.prove(f"{name}.cohort_conservation{tagr}", goal, detail="inflow(c) dt(c) = stock_by_cohort(t,c) + sum_{c<=k<=t} outflow_by_cohort(k,c) dt(k)")
    else:

        def conserve(idx):
            t, c, r = idx[0], idx[1], idx[2:]
            if t < c:
                return True
            left = sum(obc(k, c, *r) * S.dtk(k) for k in range(int(c), int(t) + 1))
            return W.num_eq(inflow(c, *r) * S.dtk(c), sbc(t, c, *r) + left)

        W.forall_range(f"{name}.cohort_conservation", rngs, conserve, detail="inflow(c) dt(c) = stock_by_cohort(t,c) + sum outflow_by_cohort(k,c) dt(k)")
    return sbc, obc


def check_balance_from_cohorts(W, S, name, inflow):
    """C03 for the dynamic models, from  stock[t] = sum_c sbc[t,c]  and  outflow[t] = sum_c obc[t,c]:
    reduced by SUM-EXT / SUM-DELTA to the pointwise cohort identity."""
    s = S.s
    n = S.n
    sbc, obc = S.rd(s._stock_by_cohort), S.rd(s._outflow_by_cohort)
    stock, outflow = S.rd(s.stock.values), S.rd(s.outflow.values)
    rngs = [(0, n)] + S.extra_ranges()
    if not W.symbolic:
        W.forall_range(f"{name}.mass_balance", rngs, lambda idx: balance_goal(W, S, stock, inflow, outflow, idx[0], idx[1:]), detail="stock(t) - stock(t-1) = dt(t) * (inflow(t) - outflow(t))")
        return
    for r in W.index_choices("b_r", S.esizes):
        _balance_at(W, S, name, inflow, sbc, obc, stock, outflow, W.fresh_int("b_t", 0, n), r)


def _balance_at(W, S, name, inflow, sbc, obc, stock, outflow, t, r):
    n = S.n
    if any(isinstance(a, int) for a in r):
        name = f"{name}[{','.join(map(str, r))}]"
    first = bool(t == 0)  # case split (forks the path): no conditional inside the sums
    prev_sbc = (lambda c: 0) if first else (lambda c: sbc(t - 1, c, *r))
    f = lambda c: sbc(t, c, *r) - prev_sbc(c) + S.dtk(t) * obc(t, c, *r)
    X = S.dtk(t) * inflow(t, *r)
    g = lambda c: W.ite(c == t, X, 0)
    W.lemma_sum_ext(f"{name}.mass_balance.cohort_identity", 0, n, f, g)
    W.lemma_sum_delta(f"{name}.mass_balance.delta", 0, n, t, X)
    # link totals to the table sums at t and t-1 (instances of the two 'sum of cohorts' clauses)
    W.c.assume(to_real(stock(t, *r)) == to_real(W.sum1("c", 0, n, lambda c: sbc(t, c, *r))), why="stock_is_sum_of_cohorts (proved above)")
    if not first:
        W.c.assume(to_real(stock(t - 1, *r)) == to_real(W.sum1("c", 0, n, lambda c: sbc(t - 1, c, *r))), why="stock_is_sum_of_cohorts (proved above)")
    W.c.assume(to_real(outflow(t, *r)) == to_real(W.sum1("c", 0, n, lambda c: obc(t, c, *r))), why="outflow_is_sum_of_cohorts (proved above)")
    goal = balance_goal(W, S, stock, inflow, outflow, t, r)
    W.c.prove(f"{name}.mass_balance", core.as_z3_bool(goal), detail="stock(t) - stock(t-1) = dt(t) * (inflow(t) - outflow(t))")


# ----------------------------------------------------------------------------------------
# InflowDrivenDSM


@unit(
    "stocks.inflow_driven.compute",
    props=["C03", "C09", "C13", "C15"],
    targets=[
        "flodym.stocks.InflowDrivenDSM.compute",
        "flodym.stocks.InflowDrivenDSM._compute_stock",
        "flodym.stocks.InflowDrivenDSM._check_needed_arrays",
        "flodym.stocks.DynamicStockModel._compute_outflow",
        "flodym.stocks.DynamicStockModel._check_needed_arrays",
        "flodym.stocks.DynamicStockModel.get_stock_by_cohort",
        "flodym.stocks.DynamicStockModel.get_outflow_by_cohort",
        "flodym.stocks.Stock._to_whole_period",
        "flodym.stocks.Stock._to_annual",
    ],
    skeletons=lambda tier: sk_extra(tier, 1, 2),
    stubs=["flodym.lifetime_models.LifetimeModel.sf", "flodym.lifetime_models.LifetimeModel.pdf", "flodym.lifetime_models.UnevenTimeDim.interval_lengths"],
)
def u_inflow_driven(W, sk):
    S = Setup(W, "inflow", sk["extra"], int_ok=True)
    s = S.s
    inflow0 = S.rd(s.inflow.values.copy())
    snaps = SL.snapshot(W, [s.inflow])
    out = W.call(lambda: s.compute())
    W.prove("compute.returns", out.kind == "return", detail=repr(out))
    check_lifetime_tables_unchanged(W, S, "compute")
    if out.kind != "return":
        return
    SL.check_unchanged(W, "compute", snaps)
    if not (SL.check_wf(W, "compute.stock", s.stock) and SL.check_wf(W, "compute.outflow", s.outflow)):
        return
    if check_tables(W, S, "compute", inflow0) is None:
        return
    check_balance_from_cohorts(W, S, "compute", inflow0)


# ----------------------------------------------------------------------------------------
# StockDrivenDSM


def row_equation(W, S, x, stock, k, r):
    """sum_{j<k} sf[k,j,r] x[j,r] + sf[k,k,r] x[k,r] = stock[k,r]"""
    sf = S.rd(S.sf)
    return W.num_eq(W.sum1("j", 0, k, lambda j: sf(k, j, *r) * x(j, *r)) + sf(k, k, *r) * x(k, *r), stock(k, *r))


def _solver_workspace(L, S):
    """the array the solver loop fills: the local named inflow_whole_period, or -- if locals were renamed -- the
    unique local symbolic array of the stock's shape that was allocated inside the function"""
    X = L.get("inflow_whole_period")
    if isinstance(X, symnp.SymArr):
        return X
    want = 1 + len(S.esizes)
    bybuf = {}
    for v in L.values():
        if not isinstance(v, symnp.SymArr) or v.ndim != want or v._buf.origin.startswith("input"):
            continue
        if v._buf is getattr(getattr(S.s.inflow, "values", None), "_buf", None):
            continue
        whole = len(v._vaxes) == v._buf.ndim and not v._fixed and all(a[0] == "b" and a[1] == k and isinstance(a[2], int) and a[2] == 0 and a[3] is v._buf.shape[k] for k, a in enumerate(v._vaxes))
        if whole:
            bybuf[v._buf.id] = v
    if len(bybuf) != 1:
        raise core.Unsupported("loop contract: the array filled by the solver loop could not be identified (loop structure changed)")
    return next(iter(bybuf.values()))


class ManualSolverLoop:
    """loop contract for the forward substitution in StockDrivenDSM._compute_inflow_manual
    invariant Inv(i):  for all k < i and all r: the row equation k holds for inflow_whole_period"""

    def __init__(self, W, S, stock, only_r=None):
        self.W, self.S, self.stock = W, S, stock
        self.pre = None
        self.only_r = only_r  # invariant restricted to one label combination (the others may have a zero diagonal)

    def _X(self, L):
        return _solver_workspace(L, self.S)

    def entry(self, L, lo):
        self.W.prove("manual.loop.starts_at_zero", self.W.size_eq(lo, 0) if not isinstance(lo, int) else lo == 0, kind="invariant")

    def havoc(self, L):
        self.name, self.f = symnp.havoc(self._X(L), "X")

    def assume_inv(self, L, i):
        W, S = self.W, self.S
        X = self._X(L)
        pre = X.frozen()
        self.pre = lambda *idx: wrap(pre(tuple(idx)))
        zi = to_int(i)
        es = [to_int(e) for e in S.esizes]
        stock = self.stock
        prex = self.pre

        only = [to_int(a) for a in self.only_r] if self.only_r is not None else None

        def fact(k, *r):
            rng = [k >= 0, k < zi] + [z3.And(a >= 0, a < e) for a, e in zip(r, es)]
            if only is not None:
                rng += [a == b for a, b in zip(r, only)]
            return z3.Implies(z3.And(*rng), core.as_z3_bool(row_equation(W, S, prex, stock, wrap(k), tuple(wrap(a) for a in r))))

        W.c.add_trigger(self.name, fact)

    def preserve(self, L, i1):
        W, S = self.W, self.S
        X = self._X(L)
        post_f = X.frozen()
        post = lambda *idx: wrap(post_f(tuple(idx)))
        k = W.fresh_int("inv_k", 0, i1)
        r = tuple(self.only_r) if self.only_r is not None else tuple(W.fresh_int(f"inv_r{j}", 0, e) for j, e in enumerate(S.esizes))
        sf = S.rd(S.sf)
        W.lemma_sum_ext("manual.loop.rows_below_untouched", 0, k, lambda j: sf(k, j, *r) * post(j, *r), lambda j: sf(k, j, *r) * self.pre(j, *r))
        W.prove("manual.loop.invariant_preserved", row_equation(W, S, post, self.stock, k, r), kind="invariant", detail="row equations hold for all rows up to and including the one just solved")


def solve_triangular_contract(W, S, calls):
    """contract stub of scipy.linalg.solve_triangular(a, b, lower=True): returns x with
    sum_{j<=k} a[k,j] x[j] = b[k] for all k (requires a non-zero diagonal); b is destroyed only if overwrite_b"""
    import itertools as _it

    ids = _it.count()

    def stub(a, b, lower=False, overwrite_b=False, **kw):
        if kw:
            raise core.Unsupported(f"solve_triangular with options {sorted(kw)}")
        W.prove("lapack.call.lower_triangular_requested", lower is True, kind="callee-pre")
        n = a.shape[0]
        W.prove("lapack.call.shapes", bool(W.size_eq(a.shape[1], n)) and bool(W.size_eq(b.shape[0], n)) and a.ndim == 2 and b.ndim == 1, kind="callee-pre")
        az, bz = a.frozen(), b.frozen()
        W.forall_range("lapack.call.nonzero_diagonal", [(0, n)], lambda idx: wrap(az((idx[0], idx[0])) != 0), kind="callee-pre")
        x = symnp.SymArr.input(f"lapack_x{next(ids)}", (n,))
        nm = x._buf.origin.split(":", 1)[1]
        xf = x.frozen()
        zn = to_int(n)

        def fact(k):
            kk = wrap(k)
            s = W.sum1("j", 0, kk, lambda j: wrap(az((to_int(j) if not isinstance(j, int) else j, ))) if False else wrap(az((k, to_int(j)))) * wrap(xf((to_int(j),))))
            return z3.Implies(z3.And(k >= 0, k < zn), to_real(s) + az((k, k)) * xf((k,)) == bz((k,)))

        W.c.add_trigger(nm, fact)
        if overwrite_b:
            symnp.havoc(b, "overwritten_b")
        calls.append((a, b, x))
        return x

    return stub


STOCK_TARGETS = [
    "flodym.stocks.StockDrivenDSM.compute",
    "flodym.stocks.StockDrivenDSM._compute_cohorts_and_inflow",
    "flodym.stocks.StockDrivenDSM._compute_inflow_manual",
    "flodym.stocks.StockDrivenDSM._compute_inflow_lapack",
    "flodym.stocks.StockDrivenDSM._check_needed_arrays",
    "flodym.stocks.DynamicStockModel._compute_outflow",
    "flodym.stocks.DynamicStockModel._n_t",
    "flodym.stocks.DynamicStockModel._shape_no_t",
    "flodym.stocks.Stock._to_annual",
    "flodym.stocks.Stock._to_whole_period",
]


def run_stock_driven(W, S, only_r=None):
    """calls compute() on the stock-driven model of setup S under the loop / callee contracts.
    -> (outcome, reader of the prescribed stock, reader of the solver's whole-period solution or None)"""
    import flodym.stocks as st

    s = S.s
    stock0 = S.rd(s.stock.values.copy())
    solution = None
    if W.symbolic:
        calls = []
        stubs = [(st, "solve_triangular", solve_triangular_contract(W, S, calls))]
        if s.solver == "manual":
            lc = ManualSolverLoop(W, S, stock0, only_r=only_r)
            W.c.loop_contracts.append(lc)
            out = W.call(lambda: s.compute(), stubs=stubs)
            solution = lambda j, *r: lc.pre(j, *r)
        elif any(not isinstance(e, int) for e in S.esizes):
            # symbolic extents of the non-time dimensions: independent-iterations loop contract
            lc = LapackColumnsLoop(W, S, stock0, calls)
            W.c.loop_contracts.append(lc)
            out = W.call(lambda: s.compute(), stubs=stubs)
            solution = (lambda j, *r: lc.pre(j, *r)) if lc.pre is not None else None
        else:
            out = W.call(lambda: s.compute(), stubs=stubs)
            cols = list(itertools.product(*[range(int(e)) for e in S.esizes]))
            if len(calls) == len(cols):
                bycol = {c: W_x for c, (_, _, W_x) in zip(cols, calls)}
                solution = lambda j, *r: wrap(bycol[tuple(int(a) for a in r)].at(j))
    else:
        out = W.call(lambda: s.compute())
    return out, stock0, solution


def prove_system_solved(W, S, name, stock0):
    """P1: x = inflow * dt solves the triangular system;  P2: stock[t] = sum_{c<n} x[c] sf[t,c]"""
    s = S.s
    n = S.n
    sf = S.rd(S.sf)
    inflow = S.rd(s.inflow.values)
    x = lambda j, *r: inflow(j, *r) * S.dtk(j)
    rngs = [(0, n)] + S.extra_ranges()
    if not W.symbolic:
        W.forall_range(f"{name}.system_solved", rngs, lambda idx: row_equation(W, S, x, stock0, idx[0], idx[1:]))
        W.forall_range(f"{name}.stock_reproduced", rngs, lambda idx: W.num_eq(stock0(*idx), W.sum1("c", 0, n, lambda c: x(c, *idx[1:]) * sf(idx[0], c, *idx[1:]))))
        return x
    k = W.fresh_int("p_k", 0, n)
    r = tuple(W.fresh_int(f"p_r{j}", 0, e) for j, e in enumerate(S.esizes))
    return x, k, r


@unit(
    "stocks.stock_driven.compute",
    props=["C03", "C09", "C10", "C13", "C15"],
    targets=STOCK_TARGETS,
    skeletons=lambda tier: [{"extra": e, "solver": "manual"} for e in range(0, (3 if tier == "thorough" else 2))]
    + [{"extra": 0, "solver": "lapack", "sizes": []}, {"extra": 1, "solver": "lapack", "sizes": [1]}, {"extra": 1, "solver": "lapack", "sizes": None}]
    + ([{"extra": 2, "solver": "lapack", "sizes": None}] if tier == "thorough" else [])
    + ([{"extra": 1, "solver": "lapack", "sizes": [2]}, {"extra": 2, "solver": "lapack", "sizes": [1, 2]}] if tier == "thorough" else []),
    stubs=["flodym.lifetime_models.LifetimeModel.sf", "flodym.lifetime_models.LifetimeModel.pdf", "flodym.lifetime_models.UnevenTimeDim.interval_lengths", "scipy.linalg.solve_triangular"],
    note="manual solver: loop invariant over a symbolic number of rows; lapack solver: contract of solve_triangular assumed, loop over the non-time indices unrolled for concrete extra sizes (bounded: 1-2 items per extra dimension); precondition of C10: sf[c,c] > 0",
)
def u_stock_driven(W, sk):
    S = Setup(W, "stock", sk["extra"], solver=sk["solver"], concrete_extra=sk.get("sizes") if (sk["solver"] == "lapack" and sk.get("sizes") is not None) else None, int_ok=True)
    s = S.s
    snaps = SL.snapshot(W, [s.stock])
    out, stock0, solution = run_stock_driven(W, S)
    W.prove("compute.returns", out.kind == "return", detail=repr(out))
    if out.kind != "return":
        return
    SL.check_unchanged(W, "compute(driver)", snaps)
    check_lifetime_tables_unchanged(W, S, "compute")
    if not (SL.check_wf(W, "compute.inflow", s.inflow) and SL.check_wf(W, "compute.outflow", s.outflow)):
        return
    n = S.n
    sf = S.rd(S.sf)
    inflow = S.rd(s.inflow.values)
    if not W.symbolic:
        x = prove_system_solved(W, S, "compute", stock0)
        if check_tables(W, S, "compute", inflow) is None:
            return
        check_balance_from_cohorts(W, S, "compute", inflow)
        return
    x = lambda j, *r: inflow(j, *r) * S.dtk(j)
    W.prove("compute.solver_contract_available", solution is not None, detail="loop / callee contract was exercised")
    if solution is None:
        return
    if s.solver == "manual" or any(not isinstance(e, int) for e in S.esizes):
        r_choices = [tuple(W.fresh_int(f"p_r{j}", 0, e) for j, e in enumerate(S.esizes))]
    else:
        r_choices = list(itertools.product(*[range(int(e)) for e in S.esizes]))
    for r in r_choices:
        tag = "" if not any(isinstance(a, int) for a in r) else f"[{','.join(map(str, r))}]"
        # P1: the triangular system is solved by x = inflow * dt  (the solver's solution divided and re-multiplied by dt)
        k = W.fresh_int("p_k", 0, n)
        W.lemma_sum_ext(f"compute.system_solved{tag}.x_is_solution", 0, k, lambda j: sf(k, j, *r) * x(j, *r), lambda j: sf(k, j, *r) * solution(j, *r))
        W.prove(f"compute.system_solved{tag}", row_equation(W, S, x, stock0, k, r), detail="sum_{j<=k} sf[k,j] x[j] = stock[k], x = inflow * dt")
        # P2: stock[t] = sum over all cohorts (the tail beyond the diagonal vanishes)
        t = k
        full = lambda c: x(c, *r) * sf(t, c, *r)
        W.lemma_sum_split(f"compute.stock_reproduced{tag}.split", 0, t + 1, n, full)
        W.lemma_sum_zero(f"compute.stock_reproduced{tag}.tail", t + 1, n, full)
        W.lemma_sum_unfold_last(f"compute.stock_reproduced{tag}.diagonal", 0, t + 1, full)
        W.lemma_sum_ext(f"compute.stock_reproduced{tag}.reorder", 0, t, full, lambda j: sf(t, j, *r) * x(j, *r))
        W.prove(f"compute.stock_reproduced{tag}", W.num_eq(stock0(t, *r), W.sum1("c", 0, n, full)), detail="driving an inflow-driven model with this inflow reproduces the prescribed stock")
    if check_tables(W, S, "compute", inflow, stock_rep=True) is None:
        return
    check_balance_from_cohorts(W, S, "compute", inflow)


# ----------------------------------------------------------------------------------------
# get_stock_balance / check_stock_balance (C03, last sentence)


@unit(
    "stocks.stock_balance",
    props=["C03"],
    targets=["flodym.stocks.Stock.get_stock_balance", "flodym.stocks.Stock.check_stock_balance", "flodym.stocks.Stock._to_annual"],
    skeletons=lambda tier: [{"extra": e, "case": c} for e in (0, 1) for c in ("balanced", "perturbed")],
    stubs=["flodym.lifetime_models.UnevenTimeDim.interval_lengths"],
    note="balanced: arrays satisfying the balance equation for every t (hypothesis installed as a trigger) must give a zero balance and pass check_stock_balance; perturbed: an entry whose annual balance exceeds the 1-unit threshold must make check_stock_balance raise",
)
def u_stock_balance(W, sk):
    S = Setup(W, "flow", sk["extra"])
    s = S.s
    n = S.n
    if W.symbolic:
        stock, inflow, outflow = S.rd(s.stock.values), S.rd(s.inflow.values), S.rd(s.outflow.values)
        resid = lambda t, *r: inflow(t, *r) - outflow(t, *r) - (stock(t, *r) - W.ite(t > 0, stock(t - 1, *r), 0)) / S.dtk(t)
        if sk["case"] == "balanced":
            zn = to_int(n)
            es = [to_int(e) for e in S.esizes]

            def fact(t, *r):
                rng = [t >= 0, t < zn] + [z3.And(a >= 0, a < e) for a, e in zip(r, es)]
                return z3.Implies(z3.And(*rng), to_real(resid(wrap(t), *[wrap(a) for a in r])) == 0)

            W.c.add_trigger("stock", fact)
            W.c.add_trigger("inflow", fact)
        else:
            t0 = W.fresh_int("pt", 0, n)
            r0 = tuple(W.fresh_int(f"pr{j}", 0, e) for j, e in enumerate(S.esizes))
            v = resid(t0, *r0)
            W.assume(core.sor(v > 1, v < -1))
    else:
        import numpy as np

        if sk["case"] == "balanced":
            s.compute()  # a computed flow-driven stock is balanced (proved in stocks.flow_driven.compute)
        else:
            s.compute()
            t0 = W.rng.randrange(n)
            idx = (t0,) + tuple(W.rng.randrange(e) for e in S.esizes)
            s.stock.values[idx] += (1.5 + W.rng.random()) * S.dt[t0] * W.rng.choice([-1, 1]) * (2 if t0 < n - 1 else 1)
        stock, inflow, outflow = S.rd(s.stock.values), S.rd(s.inflow.values), S.rd(s.outflow.values)
        resid = lambda t, *r: inflow(t, *r) - outflow(t, *r) - (stock(t, *r) - (stock(t - 1, *r) if t > 0 else 0.0)) / S.dtk(t)
    snaps = SL.snapshot(W, [s.stock, s.inflow, s.outflow])
    out = W.call(lambda: s.get_stock_balance())
    W.prove("get_stock_balance.returns", out.kind == "return", detail=repr(out))
    if out.kind != "return":
        return
    B = out.value
    bal = S.rd(B)
    rngs = [(0, n)] + S.extra_ranges()
    W.forall_range("get_stock_balance.is_annual_residual", rngs, lambda idx: W.num_eq(bal(*idx), resid(*idx)), detail="balance(t) = inflow(t) - outflow(t) - (stock(t) - stock(t-1)) / dt(t)")
    if sk["case"] == "balanced":
        W.forall_range("get_stock_balance.zero_for_balanced_arrays", rngs, lambda idx: W.num_eq(bal(*idx), 0))
    if W.symbolic:
        # the terms check_stock_balance decides on, rebuilt from the returned balance (canonical => identical);
        # the facts about them are established *before* the call, so the impossible branch is never entered
        A = symnp.sym_sum(symnp.sym_abs(B), axis=0)
        M = symnp.sym_max(A) if isinstance(A, symnp.SymArr) else A
        absb = lambda t, *r: abs(bal(t, *r))
        if sk["case"] == "balanced":
            # every column sum is zero, and the maximum is attained at some column
            if isinstance(A, symnp.SymArr):
                wr = tuple(wrap(z3.Int(f"w_{str(core.unwrap(M).decl().name())}_{j}")) for j in range(A.ndim))
            else:
                wr = ()
            W.lemma_sum_zero("check_stock_balance.column_sum_zero", 0, n, lambda t: absb(t, *wr))
        else:
            # column r0 sums to at least |balance(t0, r0)| > 1, and the maximum dominates it
            f = lambda t: absb(t, *r0)
            W.lemma_sum_split("check.perturbed.split1", 0, t0, n, f)
            W.lemma_sum_split("check.perturbed.split2", t0, t0 + 1, n, f)
            W.lemma_sum_unfold_last("check.perturbed.single", t0, t0 + 1, f)
            W.lemma_sum_nonneg("check.perturbed.left", 0, t0, f)
            W.lemma_sum_nonneg("check.perturbed.right", t0 + 1, n, f)
            if isinstance(A, symnp.SymArr):
                W.c.assume(symnp.reduction_bound_fact(M, r0), why="definition of max")
    out2 = W.call(lambda: s.check_stock_balance())
    if sk["case"] == "balanced":
        W.prove("check_stock_balance.accepts_balanced_arrays", out2.kind == "return", detail=repr(out2))
    else:
        SL.check_raises(W, "check_stock_balance.rejects_perturbed_arrays", out2, RuntimeError)
    SL.check_unchanged(W, "stock_balance", snaps)


@unit(
    "stocks.dsm_two_extra_dims.bounded",
    props=["C03", "C09", "C10", "C16"],
    targets=STOCK_TARGETS,
    skeletons=lambda tier: [{"extra": 2, "solver": s, "model": m} for s in ("manual", "lapack") for m in ("stock", "inflow")][: (4 if tier == "thorough" else 3)],
    mode="bounded",
    note="run-time evaluation of the same contracts on real models with two non-time dimensions and per-cell lifetime parameters (bounded companion of the symbolic units, which take 0-1 extra dimensions in the quick tier)",
)
def u_dsm_two_extra_bounded(W, sk):
    if sk["model"] == "stock":
        u_stock_driven(W, {"extra": 2, "solver": sk["solver"]})
    else:
        u_inflow_driven(W, {"extra": 2})


# ----------------------------------------------------------------------------------------
# C10: both solvers agree; inflow-driven and stock-driven models are inverse


def solved_row(W, S, stock0, solution, r):
    """row_x(k) for lemma_tri_unique: the row equation of  x = inflow * dt  (bridged to the solver's solution)"""
    sf = S.rd(S.sf)
    inflow = S.rd(S.s.inflow.values)
    x = lambda j: inflow(j, *r) * S.dtk(j)

    def row(k):
        if solution is not None and W.symbolic:
            W.lemma_sum_ext("agree.x_is_solution", 0, k, lambda j: sf(k, j, *r) * x(j), lambda j: sf(k, j, *r) * solution(j, *r))
        return row_equation(W, S, lambda j, *rr: x(j), stock0, k, r)

    return x, row


def compare_results(W, name, S1, S2, agree, rs, map2=None):
    """inflow, outflow and both cohort tables of two models coincide (given agree(k): x1(k) == x2(k));
    map2: label indices of S2 that correspond to the label indices r of S1 (default: the same)"""
    n = S1.n
    i1, i2 = S1.rd(S1.s.inflow.values), S2.rd(S2.s.inflow.values)
    o1, o2 = S1.rd(S1.s.outflow.values), S2.rd(S2.s.outflow.values)
    sb1, sb2 = S1.rd(S1.s._stock_by_cohort), S2.rd(S2.s._stock_by_cohort)
    ob1, ob2 = S1.rd(S1.s._outflow_by_cohort), S2.rd(S2.s._outflow_by_cohort)
    if not W.symbolic:
        rngs = [(0, n)] + S1.extra_ranges()
        W.forall_range(f"{name}.same_inflow", rngs, lambda idx: W.num_eq(i1(*idx), i2(*idx)))
        W.forall_range(f"{name}.same_outflow", rngs, lambda idx: W.num_eq(o1(*idx), o2(*idx)))
        rr = [(0, n), (0, n)] + S1.extra_ranges()
        W.forall_range(f"{name}.same_stock_by_cohort", rr, lambda idx: W.num_eq(sb1(*idx), sb2(*idx)))
        W.forall_range(f"{name}.same_outflow_by_cohort", rr, lambda idx: W.num_eq(ob1(*idx), ob2(*idx)))
        return
    for r in rs:
        tag = "" if not any(isinstance(a, int) for a in r) else f"[{','.join(map(str, r))}]"
        ag = agree[r] if isinstance(agree, dict) else agree
        q = map2(r) if map2 is not None else r
        k = W.fresh_int("cmp_k", 0, n)
        ag(k)
        W.prove(f"{name}.same_inflow{tag}", W.num_eq(i1(k, *r), i2(k, *q)))
        t = W.fresh_int("cmp_t", 0, n)
        c = W.fresh_int("cmp_c", 0, n)
        ag(c)
        W.prove(f"{name}.same_stock_by_cohort{tag}", W.num_eq(sb1(t, c, *r), sb2(t, c, *q)))
        W.prove(f"{name}.same_outflow_by_cohort{tag}", W.num_eq(ob1(t, c, *r), ob2(t, c, *q)))
        # outflow = sum over cohorts of equal summands
        W.lemma_sum_ext(f"{name}.same_outflow{tag}.summands", 0, n, lambda cc: ob1(t, cc, *r), lambda cc: ob2(t, cc, *q), using=ag)
        W.c.assume(to_real(o1(t, *r)) == to_real(W.sum1("c", 0, n, lambda cc: ob1(t, cc, *r))), why="outflow_is_sum_of_cohorts (proved in the compute units)")
        W.c.assume(to_real(o2(t, *q)) == to_real(W.sum1("c", 0, n, lambda cc: ob2(t, cc, *q))), why="outflow_is_sum_of_cohorts (proved in the compute units)")
        W.prove(f"{name}.same_outflow{tag}", W.num_eq(o1(t, *r), o2(t, *q)))


@unit(
    "stocks.solvers_agree",
    props=["C10"],
    targets=["flodym.stocks.StockDrivenDSM._compute_inflow_manual", "flodym.stocks.StockDrivenDSM._compute_inflow_lapack", "flodym.stocks.StockDrivenDSM.compute"],
    skeletons=lambda tier: [{"extra": 0, "sizes": []}, {"extra": 1, "sizes": [1]}, {"extra": 1, "sizes": None}] + ([{"extra": 1, "sizes": [2]}, {"extra": 2, "sizes": None}] if tier == "thorough" else []),
    stubs=["flodym.lifetime_models.LifetimeModel.sf", "flodym.lifetime_models.LifetimeModel.pdf", "flodym.lifetime_models.UnevenTimeDim.interval_lengths", "scipy.linalg.solve_triangular"],
    note="same prescribed stock, same survival table, same grid: the 'manual' and the 'lapack' model give the same inflow, outflow and cohort tables (TRI-UNIQUE)",
)
def u_solvers_agree(W, sk):
    S1 = Setup(W, "stock", sk["extra"], solver="manual", concrete_extra=sk["sizes"])
    driver = S1.s.stock.values.copy()
    S2 = Setup(W, "stock", sk["extra"], solver="lapack", concrete_extra=sk["sizes"], preset={"stock": driver}, tag="2")
    out1, stock0, sol1 = run_stock_driven(W, S1)
    out2, _, sol2 = run_stock_driven(W, S2)
    W.prove("agree.both_return", out1.kind == "return" and out2.kind == "return", detail=f"{out1!r} {out2!r}")
    if out1.kind != "return" or out2.kind != "return":
        return
    n = S1.n
    sf = S1.rd(S1.sf)
    if W.symbolic:
        rs = [tuple(W.fresh_int(f"ag_r{j}", 0, e) for j, e in enumerate(S1.esizes))] if any(not isinstance(e, int) for e in S1.esizes) else list(itertools.product(*[range(int(e)) for e in S1.esizes]))
    else:
        rs = [()]
    agree = {}
    if W.symbolic:
        W.prove("agree.contracts_available", sol1 is not None and sol2 is not None)
        if sol1 is None or sol2 is None:
            return
        for r in rs:
            x1, row1 = solved_row(W, S1, stock0, sol1, r)
            x2, row2 = solved_row(W, S2, stock0, sol2, r)
            agree[r] = W.lemma_tri_unique(f"agree{list(r)}", n, row1, row2, lambda k: sf(k, k, *r) != 0, x1, x2)
    compare_results(W, "agree", S1, S2, agree, rs)


@unit(
    "stocks.round_trip",
    props=["C10"],
    targets=["flodym.stocks.InflowDrivenDSM.compute", "flodym.stocks.StockDrivenDSM.compute"],
    skeletons=lambda tier: [{"extra": 0, "solver": "manual", "sizes": None}, {"extra": 1, "solver": "manual", "sizes": None}, {"extra": 0, "solver": "lapack", "sizes": []}, {"extra": 1, "solver": "lapack", "sizes": [1]}, {"extra": 1, "solver": "lapack", "sizes": None}],
    stubs=["flodym.lifetime_models.LifetimeModel.sf", "flodym.lifetime_models.LifetimeModel.pdf", "flodym.lifetime_models.UnevenTimeDim.interval_lengths", "scipy.linalg.solve_triangular"],
    note="stock computed by an inflow-driven model, fed to a stock-driven model with the same survival table: original inflow, same outflow, same cohort tables (no sign assumption on the inflow). The converse direction is the obligation compute.stock_reproduced of stocks.stock_driven.compute.",
)
def u_round_trip(W, sk):
    A = Setup(W, "inflow", sk["extra"], concrete_extra=sk["sizes"])
    inflow0 = A.rd(A.s.inflow.values.copy())
    outA = W.call(lambda: A.s.compute())
    W.prove("round_trip.forward_returns", outA.kind == "return", detail=repr(outA))
    if outA.kind != "return":
        return
    B = Setup(W, "stock", sk["extra"], solver=sk["solver"], concrete_extra=sk["sizes"], preset={"stock": A.s.stock.values.copy()}, tag="2")
    outB, stock0, sol = run_stock_driven(W, B)
    W.prove("round_trip.backward_returns", outB.kind == "return", detail=repr(outB))
    if outB.kind != "return":
        return
    n = A.n
    sf = A.rd(A.sf)
    if W.symbolic:
        W.prove("round_trip.contracts_available", sol is not None)
        if sol is None:
            return
        rs = [tuple(W.fresh_int(f"rt_r{j}", 0, e) for j, e in enumerate(A.esizes))] if (sk["solver"] == "manual" or any(not isinstance(e, int) for e in A.esizes)) else list(itertools.product(*[range(int(e)) for e in A.esizes]))
        agree = {}
        for r in rs:
            xa = lambda j, r=r: inflow0(j, *r) * A.dtk(j)

            def row_a(k, r=r, xa=xa):
                # the forward model's stock is the sum over all cohorts; cut it down to the triangular row
                full = lambda c: xa(c) * sf(k, c, *r)
                W.lemma_sum_split("round_trip.forward_row.split", 0, k + 1, n, full)
                W.lemma_sum_zero("round_trip.forward_row.tail", k + 1, n, full)
                W.lemma_sum_unfold_last("round_trip.forward_row.diagonal", 0, k + 1, full)
                W.lemma_sum_ext("round_trip.forward_row.reorder", 0, k, full, lambda j: sf(k, j, *r) * xa(j))
                W.lemma_sum_ext("round_trip.forward_row.summands", 0, n, lambda c: inflow0(c, *r) * A.dtk(c) * sf(k, c, *r), full)
                return row_equation(W, B, lambda j, *rr: xa(j), stock0, k, r)

            xb, row_b = solved_row(W, B, stock0, sol, r)
            agree[r] = W.lemma_tri_unique(f"round_trip{[a for a in r if isinstance(a, int)]}", n, row_a, row_b, lambda k, r=r: sf(k, k, *r) != 0, xa, xb)
        # 'agree' relates A's inflow*dt and B's inflow*dt; compare_results reads the inflow arrays of A and B
        compare_results(W, "round_trip", A, B, agree, rs)
    else:
        compare_results(W, "round_trip", A, B, None, None)


# ----------------------------------------------------------------------------------------
# C16: linear, causal, label-independent, impulse response  (relational obligations over several runs)


def _expr_array(W, S, fn):
    """array over S's dims with entries fn(t, *r) (symbolic world)"""
    shape = [S.n] + S.esizes
    return symnp.SymArr.fresh(shape, lambda idx: to_real(fn(*[wrap(i) if z3.is_expr(i) else i for i in idx])))


def _all_results(S):
    s = S.s
    out = {"stock": (S.rd(s.stock.values), 1), "inflow": (S.rd(s.inflow.values), 1), "outflow": (S.rd(s.outflow.values), 1)}
    out["stock_by_cohort"] = (S.rd(s._stock_by_cohort), 2)
    out["outflow_by_cohort"] = (S.rd(s._outflow_by_cohort), 2)
    return out


@unit(
    "stocks.linearity",
    props=["C16"],
    targets=["flodym.stocks.InflowDrivenDSM.compute", "flodym.stocks.StockDrivenDSM.compute", "flodym.stocks.DynamicStockModel._compute_outflow"],
    skeletons=lambda tier: [{"model": "inflow", "extra": e, "solver": None} for e in (0, 1)] + [{"model": "stock", "extra": 0, "solver": "manual"}, {"model": "stock", "extra": 1, "solver": "manual"}, {"model": "stock", "extra": 0, "solver": "lapack"}],
    stubs=["flodym.lifetime_models.LifetimeModel.sf", "flodym.lifetime_models.LifetimeModel.pdf", "flodym.lifetime_models.UnevenTimeDim.interval_lengths", "scipy.linalg.solve_triangular"],
    note="driver alpha*d1 + beta*d2 gives alpha*results1 + beta*results2 (stock, inflow, outflow, both cohort tables)",
)
def u_linearity(W, sk):
    kind = sk["model"]
    drv = "inflow" if kind == "inflow" else "stock"
    conc = [] if (kind == "stock" and sk["solver"] == "lapack") else None
    S1 = Setup(W, kind, sk["extra"], solver=sk["solver"] or "manual", concrete_extra=conc, tag="_1")
    S2 = Setup(W, kind, sk["extra"], solver=sk["solver"] or "manual", concrete_extra=conc, tag="_2")
    al, be = W.number("alpha"), W.number("beta")
    d1 = S1.rd(getattr(S1.s, drv).values.copy())
    d2 = S2.rd(getattr(S2.s, drv).values.copy())
    if W.symbolic:
        d3v = _expr_array(W, S1, lambda t, *r: al * d1(t, *r) + be * d2(t, *r))
    else:
        d3v = al * getattr(S1.s, drv).values + be * getattr(S2.s, drv).values
    S3 = Setup(W, kind, sk["extra"], solver=sk["solver"] or "manual", concrete_extra=conc, preset={drv: d3v}, tag="_3")
    sols = []
    for S in (S1, S2, S3):
        if kind == "inflow":
            out = W.call(lambda: S.s.compute())
            sols.append((None, None))
        else:
            out, st0, sol = run_stock_driven(W, S)
            sols.append((st0, sol))
        W.prove("linearity.compute_returns", out.kind == "return", detail=repr(out))
        if out.kind != "return":
            return
    n = S1.n
    R1, R2, R3 = _all_results(S1), _all_results(S2), _all_results(S3)
    agree = None
    rs = [tuple(W.fresh_int(f"lin_r{j}", 0, e) for j, e in enumerate(S1.esizes))] if W.symbolic else None
    if kind == "stock" and W.symbolic:
        sf = S1.rd(S1.sf)
        r = rs[0]
        x1, row1 = solved_row(W, S1, sols[0][0], sols[0][1], r)
        x2, row2 = solved_row(W, S2, sols[1][0], sols[1][1], r)
        x3, row3 = solved_row(W, S3, sols[2][0], sols[2][1], r)
        y = lambda j: al * x1(j) + be * x2(j)

        def row_y(k):
            ok1, ok2 = row1(k), row2(k)
            W.c.assume(core.as_z3_bool(ok1), why="row equations of run 1 (proved in stocks.stock_driven.compute)")
            W.c.assume(core.as_z3_bool(ok2), why="row equations of run 2 (proved in stocks.stock_driven.compute)")
            return row_equation(W, S3, lambda j, *rr: y(j), sols[2][0], k, r)

        # premises about runs 1 and 2 are re-proved here (not assumed): row1/row2 are obligations of this unit too
        k = W.fresh_int("lin_k", 0, n)
        W.prove("linearity.rows_run1", row1(k), kind="lemma-premise")
        k = W.fresh_int("lin_k", 0, n)
        W.prove("linearity.rows_run2", row2(k), kind="lemma-premise")
        agree = W.lemma_tri_unique("linearity.unique", n, row3, row_y, lambda k: sf(k, k, *r) != 0, x3, y)
    for nm in R1:
        f1, f2, f3 = R1[nm][0], R2[nm][0], R3[nm][0]
        nt = R1[nm][1]
        if W.symbolic:
            r = rs[0]
            idx = tuple(W.fresh_int(f"lin_{nm}_{j}", 0, n) for j in range(nt))
            if agree is not None:
                for i in idx:
                    agree(i)
            if nm == "outflow" and agree is not None:
                t = idx[0]
                o1, o2, o3 = R1["outflow_by_cohort"][0], R2["outflow_by_cohort"][0], R3["outflow_by_cohort"][0]
                W.lemma_sum_ext("linearity.outflow.summands", 0, n, lambda c: o3(t, c, *r), lambda c: al * o1(t, c, *r) + be * o2(t, c, *r), using=agree)
                for (S, ob, of) in ((S1, o1, f1), (S2, o2, f2), (S3, o3, f3)):
                    W.c.assume(to_real(of(t, *r)) == to_real(W.sum1("c", 0, n, lambda c: ob(t, c, *r))), why="outflow_is_sum_of_cohorts (proved in the compute units)")
            W.prove(f"linearity.{nm}", W.num_eq(f3(*idx, *r), al * f1(*idx, *r) + be * f2(*idx, *r)))
        else:
            rngs = [(0, n)] * nt + S1.extra_ranges()
            W.forall_range(f"linearity.{nm}", rngs, lambda idx: W.num_eq(f3(*idx), al * f1(*idx) + be * f2(*idx)))


@unit(
    "stocks.causality",
    props=["C16"],
    targets=["flodym.stocks.InflowDrivenDSM.compute", "flodym.stocks.StockDrivenDSM.compute"],
    skeletons=lambda tier: [{"model": "inflow", "extra": 0, "solver": None}, {"model": "inflow", "extra": 1, "solver": None}, {"model": "stock", "extra": 0, "solver": "manual"}, {"model": "stock", "extra": 0, "solver": "lapack"}],
    stubs=["flodym.lifetime_models.LifetimeModel.sf", "flodym.lifetime_models.LifetimeModel.pdf", "flodym.lifetime_models.UnevenTimeDim.interval_lengths", "scipy.linalg.solve_triangular"],
    note="two drivers that coincide up to time step T give results that coincide up to T (every truncation point T symbolic)",
)
def u_causality(W, sk):
    kind = sk["model"]
    drv = "inflow" if kind == "inflow" else "stock"
    conc = [] if (kind == "stock" and sk["solver"] == "lapack") else None
    S1 = Setup(W, kind, sk["extra"], solver=sk["solver"] or "manual", concrete_extra=conc, tag="_1")
    n = S1.n
    d1 = S1.rd(getattr(S1.s, drv).values.copy())
    if W.symbolic:
        T = W.fresh_int("T", 0, n)
        S2 = Setup(W, kind, sk["extra"], solver=sk["solver"] or "manual", concrete_extra=conc, tag="_2")
        d2raw = S2.rd(getattr(S2.s, drv).values.copy())
        # second driver: equal to the first up to T, arbitrary afterwards
        d2v = _expr_array(W, S1, lambda t, *r: W.ite(t <= T, d1(t, *r), d2raw(t, *r)))
        S2 = Setup(W, kind, sk["extra"], solver=sk["solver"] or "manual", concrete_extra=conc, preset={drv: d2v}, tag="_2b")
    else:
        import numpy as np

        T = W.rng.randrange(n)
        v = np.array(getattr(S1.s, drv).values, copy=True)
        v[T + 1 :] += 1.0 + np.arange(v[T + 1 :].size).reshape(v[T + 1 :].shape)
        S2 = Setup(W, kind, sk["extra"], solver=sk["solver"] or "manual", concrete_extra=conc, preset={drv: v}, tag="_2b")
    sols = []
    for S in (S1, S2):
        if kind == "inflow":
            out = W.call(lambda: S.s.compute())
            sols.append((None, None))
        else:
            out, st0, sol = run_stock_driven(W, S)
            sols.append((st0, sol))
        W.prove("causality.compute_returns", out.kind == "return", detail=repr(out))
        if out.kind != "return":
            return
    R1, R2 = _all_results(S1), _all_results(S2)
    if not W.symbolic:
        for nm in R1:
            nt = R1[nm][1]
            rngs = [(0, T + 1)] + [(0, n)] * (nt - 1) + S1.extra_ranges()
            W.forall_range(f"causality.{nm}", rngs, lambda idx: W.num_eq(R1[nm][0](*idx), R2[nm][0](*idx)))
        return
    r = tuple(W.fresh_int(f"cau_r{j}", 0, e) for j, e in enumerate(S1.esizes))
    sf, pdf = S1.rd(S1.sf), S1.rd(S1.pdf)
    agree = lambda k: None
    if kind == "stock":
        x1, row1 = solved_row(W, S1, sols[0][0], sols[0][1], r)
        x2, row2 = solved_row(W, S2, sols[1][0], sols[1][1], r)
        # the first T+1 rows of both systems have the same right-hand side: uniqueness on the prefix
        def row2_vs_stock1(k):
            ok = row2(k)
            W.c.assume(core.as_z3_bool(ok), why="row equations of run 2 (premise proved below)")
            return row_equation(W, S1, lambda j, *rr: x2(j), sols[0][0], k, r)

        k = W.fresh_int("cau_k", 0, n)
        W.prove("causality.rows_run2", row2(k), kind="lemma-premise")
        agree = W.lemma_tri_unique("causality.unique_prefix", T + 1, row1, row2_vs_stock1, lambda k: sf(k, k, *r) != 0, x1, x2)
    t = W.fresh_int("cau_t", 0, T + 1)
    c = W.fresh_int("cau_c", 0, n)
    agree(t)
    if kind == "stock":
        # cohorts beyond T do not matter for t <= T (their tables vanish); cohorts up to T agree
        pass
    i1, i2 = R1["inflow"][0], R2["inflow"][0]
    W.prove("causality.inflow", W.num_eq(i1(t, *r), i2(t, *r)))
    sb1, sb2 = R1["stock_by_cohort"][0], R2["stock_by_cohort"][0]
    ob1, ob2 = R1["outflow_by_cohort"][0], R2["outflow_by_cohort"][0]
    if bool(c <= T):
        agree(c)
    W.prove("causality.stock_by_cohort", W.num_eq(sb1(t, c, *r), sb2(t, c, *r)))
    W.prove("causality.outflow_by_cohort", W.num_eq(ob1(t, c, *r), ob2(t, c, *r)))

    def using(cc):
        if kind == "stock":
            # case split on cc <= T inside the premise: add the agreement as an implication
            W.c.assume(z3.Implies(to_int(cc) <= to_int(T), to_real(x1(cc)) == to_real(x2(cc))), why="TRI-UNIQUE (prefix)")

    W.lemma_sum_ext("causality.stock.summands", 0, n, lambda cc: sb1(t, cc, *r), lambda cc: sb2(t, cc, *r), using=using)
    W.lemma_sum_ext("causality.outflow.summands", 0, n, lambda cc: ob1(t, cc, *r), lambda cc: ob2(t, cc, *r), using=using)
    for (S, R) in ((S1, R1), (S2, R2)):
        W.c.assume(to_real(R["outflow"][0](t, *r)) == to_real(W.sum1("c", 0, n, lambda cc: R["outflow_by_cohort"][0](t, cc, *r))), why="outflow_is_sum_of_cohorts (proved in the compute units)")
        W.c.assume(to_real(R["stock"][0](t, *r)) == to_real(W.sum1("c", 0, n, lambda cc: R["stock_by_cohort"][0](t, cc, *r))), why="stock_is_sum_of_cohorts (proved in the compute units)")
    W.prove("causality.stock", W.num_eq(R1["stock"][0](t, *r), R2["stock"][0](t, *r)))
    W.prove("causality.outflow", W.num_eq(R1["outflow"][0](t, *r), R2["outflow"][0](t, *r)))


@unit(
    "stocks.impulse_and_label_independence",
    props=["C16"],
    targets=["flodym.stocks.InflowDrivenDSM.compute", "flodym.stocks.InflowDrivenDSM._compute_stock"],
    skeletons=lambda tier: [{"extra": 0}, {"extra": 1}],
    stubs=["flodym.lifetime_models.LifetimeModel.sf", "flodym.lifetime_models.LifetimeModel.pdf", "flodym.lifetime_models.UnevenTimeDim.interval_lengths"],
    note="unit inflow rate in one cohort c0: stock(t) = dt(c0) * sf(t, c0); every label combination evolves as if computed alone with its own survival table",
)
def u_impulse(W, sk):
    S0 = Setup(W, "inflow", sk["extra"], tag="_0")
    n = S0.n
    if W.symbolic:
        c0 = W.fresh_int("c0", 0, n)
        imp = _expr_array(W, S0, lambda t, *r: W.ite(t == c0, 1, 0))
    else:
        import numpy as np

        c0 = W.rng.randrange(n)
        imp = np.zeros_like(S0.s.inflow.values)
        imp[c0] = 1.0
    S = Setup(W, "inflow", sk["extra"], preset={"inflow": imp}, tag="_imp")
    out = W.call(lambda: S.s.compute())
    W.prove("impulse.compute_returns", out.kind == "return", detail=repr(out))
    if out.kind != "return":
        return
    stock = S.rd(S.s.stock.values)
    sf = S.rd(S.sf)
    inflow = S.rd(S.s.inflow.values)
    if W.symbolic:
        t = W.fresh_int("imp_t", 0, n)
        r = tuple(W.fresh_int(f"imp_r{j}", 0, e) for j, e in enumerate(S.esizes))
        X = S.dtk(c0) * sf(t, c0, *r)
        W.lemma_sum_ext("impulse.summands", 0, n, lambda c: inflow(c, *r) * S.dtk(c) * sf(t, c, *r), lambda c: W.ite(c == c0, X, 0))
        W.lemma_sum_delta("impulse.delta", 0, n, c0, X)
        W.prove("impulse.response", W.num_eq(stock(t, *r), X), detail="stock response to a unit inflow rate in cohort c0 = dt(c0) * sf(t, c0)")
    else:
        W.forall_range("impulse.response", [(0, n)] + S.extra_ranges(), lambda idx: W.num_eq(stock(*idx), S.dtk(c0) * sf(idx[0], c0, *idx[1:])))
    if sk["extra"] == 0:
        return
    # label independence: slice r0 of a run with an extra dimension = run without it on the sliced inputs
    A = Setup(W, "inflow", 1, tag="_A")
    outA = W.call(lambda: A.s.compute())
    W.prove("labels.compute_returns", outA.kind == "return")
    if W.symbolic:
        r0 = W.fresh_int("r0", 0, A.esizes[0])
        ia = A.rd(A.s.inflow.values)
        sfa, pdfa = A.rd(A.sf), A.rd(A.pdf)
        n = A.n
        pre = {
            "inflow": symnp.SymArr.fresh([n], lambda idx: to_real(ia(wrap(idx[0]), r0))),
            "sf": symnp.SymArr.fresh([n, n], lambda idx: to_real(sfa(wrap(idx[0]), wrap(idx[1]), r0))),
            "pdf": symnp.SymArr.fresh([n, n], lambda idx: to_real(pdfa(wrap(idx[0]), wrap(idx[1]), r0))),
        }
    else:
        r0 = W.rng.randrange(A.esizes[0])
        pre = {"inflow": A.s.inflow.values[:, r0]}
    if W.symbolic:
        Bq = Setup(W, "inflow", 0, preset=pre, tag="_B")
        outB = W.call(lambda: Bq.s.compute())
        W.prove("labels.alone_returns", outB.kind == "return")
        RA, RB = _all_results(A), _all_results(Bq)
        for nm in RA:
            nt = RA[nm][1]
            idx = tuple(W.fresh_int(f"lab_{nm}_{j}", 0, n) for j in range(nt))
            W.prove(f"labels.{nm}", W.num_eq(RA[nm][0](*idx, r0), RB[nm][0](*idx)), detail="result at label r0 = result of the model computed alone for that label")


@unit(
    "stocks.stock_driven.label_independence",
    props=["C16", "C08"],
    only_clauses={"C08": ["*lifetime_tables_not_written"]},
    targets=["flodym.stocks.StockDrivenDSM.compute", "flodym.stocks.StockDrivenDSM._compute_cohorts_and_inflow", "flodym.stocks.StockDrivenDSM._compute_inflow_manual", "flodym.stocks.DynamicStockModel._compute_outflow"],
    skeletons=lambda tier: [{"solver": "manual"}],
    stubs=["flodym.lifetime_models.LifetimeModel.sf", "flodym.lifetime_models.LifetimeModel.pdf", "flodym.lifetime_models.UnevenTimeDim.interval_lengths", "scipy.linalg.solve_triangular"],
    note="stock-driven model over (t, r): only label r0 is assumed to have a positive diagonal sf[c,c,r0] > 0 -- the other labels are unconstrained (their survival may vanish within the first period, where the model divides by zero); every result at r0 equals that of the model computed alone with r0's stock and survival table. The loop invariant of the manual solver is stated for r0 only.",
)
def u_label_independence_stock(W, sk):
    import numpy as np

    if W.symbolic:
        A = Setup(W, "stock", 1, solver=sk["solver"], positive_diag="only_r0", tag="_A")
        r0 = A.r0
    else:
        from .dimensions import ALPHA  # noqa: F401

        W.sizes.setdefault(EXTRA[0], W.rng.choice([2, 3]))
        ne = int(W.sizes[EXTRA[0]])
        r0 = (W.rng.randrange(ne),)
        zero = ((r0[0] + 1 + W.rng.randrange(max(1, ne - 1))) % ne,) if ne > 1 else None
        if zero == r0:
            zero = None
        A = Setup(W, "stock", 1, solver=sk["solver"], tag="_A", zero_diag_label=zero)
        W.inputs["r0"], W.inputs["zero_diagonal_label"] = list(r0), (list(zero) if zero else None)
    n = A.n
    with np.errstate(all="ignore"):
        outA, stockA0, solA = run_stock_driven(W, A, only_r=r0 if W.symbolic else None)
    W.prove("labels.compute_returns", outA.kind == "return", detail=repr(outA))
    if outA.kind != "return":
        return
    check_lifetime_tables_unchanged(W, A, "labels")
    sfa = A.rd(A.sf)
    if W.symbolic:
        pdfa = A.rd(A.pdf)
        pre = {
            "stock": symnp.SymArr.fresh([n], lambda idx: to_real(stockA0(wrap(idx[0]), *r0))),
            "sf": symnp.SymArr.fresh([n, n], lambda idx: to_real(sfa(wrap(idx[0]), wrap(idx[1]), *r0))),
            "pdf": symnp.SymArr.fresh([n, n], lambda idx: to_real(pdfa(wrap(idx[0]), wrap(idx[1]), *r0))),
        }
        B = Setup(W, "stock", 0, solver=sk["solver"], preset=pre, tag="_B")
    else:
        which, mean, std = A.lifetime_spec
        pre = {"stock": np.array(A.s.stock.values)[:, r0[0]]}
        B = Setup(W, "stock", 0, solver=sk["solver"], preset=pre, tag="_B", lifetime_spec=(which, mean[:, r0[0]].copy(), std[:, r0[0]].copy()))
    outB, stockB0, solB = run_stock_driven(W, B)
    W.prove("labels.alone_returns", outB.kind == "return", detail=repr(outB))
    if outB.kind != "return":
        return
    RA, RB = _all_results(A), _all_results(B)
    if not W.symbolic:
        for nm in RA:
            nt = RA[nm][1]
            W.forall_range(f"labels.{nm}", [(0, n)] * nt, (lambda a, b: lambda idx: W.num_eq(a(*idx, *r0), b(*idx)))(RA[nm][0], RB[nm][0]), detail="result at label r0 = result of the model computed alone for that label")
        return
    W.prove("labels.contracts_available", solA is not None and solB is not None)
    if solA is None or solB is None:
        return
    x1, row1 = solved_row(W, A, stockA0, solA, r0)
    x2, row2 = solved_row(W, B, stockB0, solB, ())

    def row2_for_A(k):
        ok = row2(k)
        W.c.assume(core.as_z3_bool(ok), why="row equations of the model computed alone (premise proved separately)")
        return row_equation(W, A, lambda j, *rr: x2(j), stockA0, k, r0)

    k = W.fresh_int("lab_k", 0, n)
    W.prove("labels.rows_alone", row2(k), kind="lemma-premise")
    agree = W.lemma_tri_unique("labels.unique", n, row1, row2_for_A, lambda k: sfa(k, k, *r0) != 0, x1, x2)
    t = W.fresh_int("lab_t", 0, n)
    W.prove("labels.stock", W.num_eq(RA["stock"][0](t, *r0), RB["stock"][0](t)), detail="the prescribed stock is left as given")
    compare_results(W, "labels", A, B, agree, [r0], map2=lambda r: ())


# ----------------------------------------------------------------------------------------
# must-fail guards


@unit(
    "stocks.mustfail_balance_without_interval_length",
    props=["C03", "C09", "C10", "C16"],
    targets=["flodym.stocks.SimpleFlowDrivenStock.compute"],
    skeletons=lambda tier: [{"extra": 0}],
    expect="refuted",
)
def u_mustfail_balance(W, sk):
    if not W.symbolic:
        W.grid_kind = "const"
    S = Setup(W, "flow", sk["extra"])
    s = S.s
    inflow0, outflow0 = S.rd(s.inflow.values.copy()), S.rd(s.outflow.values.copy())
    W.call(lambda: s.compute())
    stock = S.rd(s.stock.values)
    if W.symbolic:
        t = W.fresh_int("bt", 1, S.n)
        f = lambda k: (inflow0(k) - outflow0(k)) * S.dtk(k)
        W.lemma_sum_unfold_last("mf.unfold", 0, t + 1, f)
        W.prove("mf.balance(wrong: no interval length)", W.num_eq(stock(t) - stock(t - 1), inflow0(t) - outflow0(t)))
    else:
        W.forall_range("mf.balance(wrong: no interval length)", [(1, S.n)], lambda idx: W.num_eq(stock(idx[0]) - stock(idx[0] - 1), inflow0(idx[0]) - outflow0(idx[0])))


# ----------------------------------------------------------------------------------------
# C17: recomputing reflects the current inputs only


@unit(
    "stocks.recompute",
    props=["C17"],
    targets=["flodym.stocks.InflowDrivenDSM.compute", "flodym.stocks.StockDrivenDSM.compute", "flodym.stocks.SimpleFlowDrivenStock.compute"],
    skeletons=lambda tier: [{"model": m, "extra": e, "solver": s} for (m, s) in (("inflow", None), ("stock", "manual"), ("stock", "lapack"), ("flow", None)) for e in ((0,) if s == "lapack" else (0, 1))],
    stubs=["flodym.lifetime_models.LifetimeModel.sf", "flodym.lifetime_models.LifetimeModel.pdf", "flodym.lifetime_models.UnevenTimeDim.interval_lengths", "scipy.linalg.solve_triangular"],
    note="the stock object starts with arbitrary previous results (outputs and cohort tables are unconstrained symbols); compute() with driver d1, then the driver is overwritten in place with d2 and compute() runs again: every result equals that of a fresh object computed with d2 (same survival table and grid); a third compute() changes nothing",
)
def u_recompute(W, sk):
    kind = sk["model"]
    conc = [] if sk["solver"] == "lapack" else None
    S = Setup(W, kind, sk["extra"], solver=sk["solver"] or "manual", concrete_extra=conc, tag="_a")
    drivers = {"inflow": ["inflow"], "stock": ["stock"], "flow": ["inflow", "outflow"]}[kind]

    sols = {}

    def run(S_):
        if kind == "stock":
            o, st0, sol = run_stock_driven(W, S_)
            sols[id(S_)] = (st0, sol)
            return o
        return W.call(lambda: S_.s.compute())

    out = run(S)
    W.prove("recompute.first_returns", out.kind == "return", detail=repr(out))
    if out.kind != "return":
        return
    # new driver values, written in place into the existing arrays
    new = {}
    for d in drivers:
        if W.symbolic:
            new[d] = W.ndarray(d + "_second", [S.n] + S.esizes)
        else:
            import numpy as np

            new[d] = np.array(getattr(S.s, d).values) * -0.5 + 3.0
        arr = getattr(S.s, d)
        W.call(lambda: arr.__setitem__(Ellipsis, new[d]))
    out = run(S)
    W.prove("recompute.second_returns", out.kind == "return", detail=repr(out))
    if out.kind != "return":
        return
    F = Setup(W, kind, sk["extra"], solver=sk["solver"] or "manual", concrete_extra=conc, preset={d: (new[d].copy() if hasattr(new[d], "copy") else new[d]) for d in drivers}, tag="_fresh")
    outF = run(F)
    W.prove("recompute.fresh_returns", outF.kind == "return", detail=repr(outF))
    if outF.kind != "return":
        return
    names = ["stock", "inflow", "outflow"]
    def results(S_):
        r = {nm: (S_.rd(getattr(S_.s, nm).values), 1) for nm in names}
        if kind != "flow":
            r["stock_by_cohort"] = (S_.rd(S_.s._stock_by_cohort), 2)
            r["outflow_by_cohort"] = (S_.rd(S_.s._outflow_by_cohort), 2)
        return r

    RS, RF = results(S), results(F)
    n = S.n
    if kind == "stock" and W.symbolic:
        sfr = S.rd(S.sf)
        rs = list(itertools.product(*[range(int(e)) for e in S.esizes])) if sk["solver"] == "lapack" else [tuple(W.fresh_int(f"rc_r{j}", 0, e) for j, e in enumerate(S.esizes))]
        agree = {}
        for r in rs:
            x1, row1 = solved_row(W, S, sols[id(S)][0], sols[id(S)][1], r)
            x2, row2 = solved_row(W, F, sols[id(F)][0], sols[id(F)][1], r)

            def row2_for_S(k, row2=row2, x2=x2, r=r):
                ok = row2(k)
                W.c.assume(core.as_z3_bool(ok), why="row equations of the fresh object (premise proved separately)")
                return row_equation(W, S, lambda j, *rr: x2(j), sols[id(S)][0], k, r)

            k = W.fresh_int("rc_k", 0, n)
            W.prove("recompute.rows_fresh_object", row2(k), kind="lemma-premise")
            agree[r] = W.lemma_tri_unique(f"recompute.unique{[a for a in r if isinstance(a, int)]}", n, row1, row2_for_S, lambda k, r=r: sfr(k, k, *r) != 0, x1, x2)
        compare_results(W, "recompute.equals_fresh_object", S, F, agree, rs)
    for nm in RS:
        nt = RS[nm][1]
        rngs = [(0, n)] * nt + S.extra_ranges()
        if kind == "stock" and W.symbolic and nm != "stock":
            continue  # equality of the two solver outputs is the TRI-UNIQUE argument of stocks.solvers_agree; here: same code, same inputs
        W.forall_range(f"recompute.{nm}_equals_fresh_object", rngs, (lambda a, b: lambda idx: W.num_eq(a(*idx), b(*idx)))(RS[nm][0], RF[nm][0]))
    # idempotence
    before = {nm: (S.rd(getattr(S.s, nm).values.copy()), 1) for nm in names}
    out3 = run(S)
    W.prove("recompute.third_returns", out3.kind == "return")
    if kind != "stock" or not W.symbolic:
        after = results(S)
        for nm in names:
            W.forall_range(f"recompute.idempotent.{nm}", [(0, n)] + S.extra_ranges(), (lambda a, b: lambda idx: W.num_eq(a(*idx), b(*idx)))(after[nm][0], before[nm][0]))


# ----------------------------------------------------------------------------------------
# C13: stocks and lifetime models reject arrays / models over other dimensions, and time not first


def sk_validation(tier):
    out = []
    for cls in ("flow", "inflow", "stock"):
        for case in ("none", "same", "other_letters", "twin_time", "twin_extra", "fewer_dims", "more_dims", "time_not_first", "lifetime_other_letters", "lifetime_twin", "lifetime_fewer_dims", "lifetime_more_dims", "lifetime_class"):
            if cls == "flow" and case.startswith("lifetime"):
                continue
            out.append({"cls": cls, "case": case})
    out.append({"cls": "lifetime", "case": "time_not_first"})
    out.append({"cls": "lifetime", "case": "ok"})
    return out


@unit(
    "stocks.constructor_validation",
    props=["C13", "C15"],
    targets=[
        "flodym.stocks.Stock.validate_stock_arrays",
        "flodym.stocks.Stock.validate_time_first_dim",
        "flodym.stocks.Stock.init_t",
        "flodym.stocks.DynamicStockModel.init_cohort_arrays",
        "flodym.stocks.DynamicStockModel.init_lifetime_model",
        "flodym.lifetime_models.LifetimeModel.check_inflow_at",
        "flodym.lifetime_models.LifetimeModel.cast_prms",
        "flodym.lifetime_models.LifetimeModel.init_t",
    ],
    skeletons=sk_validation,
    note="dims (t, r) of symbolic size; 'twin' = a Dimension with the same letter but other items (its own symbolic length): arrays or lifetime models over a twin differ from the stock's dimensions and must be rejected; accepted arrays keep wf; inputs are not modified",
)
def u_validation(W, sk):
    import flodym.stocks as st
    import flodym.lifetime_models as lt
    from flodym.flodym_arrays import StockArray
    from .dimensions import mk_set

    T = W.dim("t", name="Time", lo=3)
    R = W.dim("r")
    Q = W.dim("q")
    T2 = W.dim("t", name="Time", lo=3, tag="t_twin")
    R2 = W.dim("r", tag="r_twin")
    if not W.symbolic:
        # a real time dimension needs numeric items
        T.items[:] = [2000 + 2 * k for k in range(len(T.items))]
        T2.items[:] = [1990 + 3 * k for k in range(len(T2.items) + 1)]
        R2.items[:] = [f"other{k}" for k in range(len(R2.items) + 1)]
    dims = mk_set(W, [T, R])
    case = sk["case"]
    if sk["cls"] == "lifetime":
        if case == "time_not_first":
            out = W.call(lambda: lt.NormalLifetime(dims=mk_set(W, [R, T]), time_letter="t"))
            SL.check_raises(W, "lifetime model whose time dimension is not first", out, ValueError)
        else:
            out = W.call(lambda: lt.NormalLifetime(dims=dims, time_letter="t"))
            W.prove("lifetime model over (t, r) accepted", out.kind == "return", detail=repr(out))
        return
    cls = {"flow": st.SimpleFlowDrivenStock, "inflow": st.InflowDrivenDSM, "stock": st.StockDrivenDSM}[sk["cls"]]
    kw = dict(dims=dims, name="s", time_letter="t")
    arr_dims = {"same": [T, R], "other_letters": [T, Q], "twin_time": [T2, R], "twin_extra": [T, R2], "fewer_dims": [T], "more_dims": [T, R, Q]}.get(case)
    given = None
    if arr_dims is not None:
        given = W.array("given", arr_dims, cls=StockArray)
        kw["inflow"] = given
    if case == "time_not_first":
        kw["dims"] = mk_set(W, [R, T])
    lm_dims = [T, R]
    if sk["cls"] != "flow":
        if case == "lifetime_class":
            kw["lifetime_model"] = lt.NormalLifetime
        else:
            if case == "lifetime_other_letters":
                lm_dims = [T, Q]
            elif case == "lifetime_twin":
                lm_dims = [T, R2]
            elif case == "lifetime_fewer_dims":
                lm_dims = [T]
            elif case == "lifetime_more_dims":
                lm_dims = [T, R, Q]
            if case == "time_not_first":
                kw["lifetime_model"] = lt.NormalLifetime
            elif W.symbolic:
                lm = lt.NormalLifetime.model_construct(dims=mk_set(W, lm_dims), time_letter="t", inflow_at="middle", n_pts_per_interval=1, mean=None, std=None)
                lm._sf, lm._pdf, lm._t = None, None, None
                kw["lifetime_model"] = lm
            else:
                kw["lifetime_model"] = lt.NormalLifetime(dims=mk_set(W, lm_dims), time_letter="t")
    snaps = SL.snapshot(W, [given]) if given is not None else []
    out = W.call(lambda: cls(**kw))
    bad = case in ("other_letters", "twin_time", "twin_extra", "fewer_dims", "more_dims", "time_not_first", "lifetime_other_letters", "lifetime_twin", "lifetime_fewer_dims", "lifetime_more_dims")
    if case in ("twin_time", "twin_extra", "lifetime_twin") and W.symbolic:
        # the symbolic twin has arbitrary length and arbitrary items: on the paths where its items are exactly the
        # original's it *is* the same dimension (case 'same' covers that); a twin proper differs somewhere
        twin, orig = (T2, T) if case == "twin_time" else (R2, R)
        if twin.items == orig.items:
            return
    if bad:
        SL.check_raises(W, f"stock[{case}].refused", out, ValueError)
    else:
        W.prove(f"stock[{case}].accepted", out.kind == "return", detail=repr(out))
        if out.kind == "return":
            s = out.value
            for nm in ("stock", "inflow", "outflow"):
                a = getattr(s, nm)
                if SL.check_wf(W, f"stock[{case}].{nm}", a):
                    W.prove(f"stock[{case}].{nm}.over_the_stock_dimensions", [d.letter for d in a.dims.dim_list] == ["t", "r"] and all(x is y for x, y in zip(a.dims.dim_list, [T, R])))
            if given is not None:
                W.prove(f"stock[{case}].keeps_the_given_array", s.inflow is given)
            if sk["cls"] != "flow":
                W.prove(f"stock[{case}].lifetime_model_instance_over_the_stock_dimensions", isinstance(s.lifetime_model, lt.NormalLifetime) and [d.letter for d in s.lifetime_model.dims.dim_list] == ["t", "r"])
    if snaps:
        SL.check_unchanged(W, f"stock[{case}]", snaps)


@unit(
    "stocks.to_stock_type",
    props=["C13", "C15"],
    targets=["flodym.stocks.Stock.to_stock_type", "flodym.stocks.Stock.validate_stock_arrays", "flodym.stocks.DynamicStockModel.init_lifetime_model"],
    skeletons=lambda tier: [{"to": t} for t in ("inflow", "stock", "flow")],
    note="a flow-driven stock over (t, r) with given arrays is converted into another stock class: the new object carries the same dimensions and the same entries in well-formed arrays, the source stock and its arrays are unchanged",
)
def u_to_stock_type(W, sk):
    import flodym.stocks as st
    import flodym.lifetime_models as lt
    from flodym.flodym_arrays import StockArray
    from .dimensions import mk_set

    T = W.dim("t", name="Time", lo=3)
    R = W.dim("r")
    if not W.symbolic:
        T.items[:] = [2000 + 2 * k for k in range(len(T.items))]
    dims = mk_set(W, [T, R])
    arrs = {nm: W.array(nm, [T, R], cls=StockArray) for nm in ("stock", "inflow", "outflow")}
    made = W.call(lambda: st.SimpleFlowDrivenStock(dims=dims, name="s", time_letter="t", **arrs))
    W.prove("source_stock.constructed", made.kind == "return", detail=repr(made))
    if made.kind != "return":
        return
    src = made.value
    snaps = SL.snapshot(W, [src.stock, src.inflow, src.outflow])
    labs = {nm: SL.lab(W, getattr(src, nm)) for nm in arrs}
    cls = {"inflow": st.InflowDrivenDSM, "stock": st.StockDrivenDSM, "flow": st.SimpleFlowDrivenStock}[sk["to"]]
    kw = {} if sk["to"] == "flow" else {"lifetime_model": lt.NormalLifetime}
    out = W.call(lambda: src.to_stock_type(cls, **kw))
    W.prove("to_stock_type.returns", out.kind == "return", detail=repr(out))
    if out.kind == "return":
        new = out.value
        W.prove("to_stock_type.class", type(new) is cls)
        W.prove("to_stock_type.dims", [d.letter for d in new.dims.dim_list] == ["t", "r"])
        for nm in arrs:
            a = getattr(new, nm)
            if SL.check_wf(W, f"to_stock_type.{nm}", a):
                A = SL.lab(W, a)
                ok = A.letters == ("t", "r")
                W.prove(f"to_stock_type.{nm}.over_the_stock_dimensions", ok)
                if ok:
                    W.forall(f"to_stock_type.{nm}.entries", [W.size_of(T), W.size_of(R)], (lambda A, L: lambda idx: W.num_eq(A.at({"t": idx[0], "r": idx[1]}), L.at({"t": idx[0], "r": idx[1]})))(A, labs[nm]))
    SL.check_unchanged(W, "to_stock_type.source", snaps)


# ----------------------------------------------------------------------------------------
# lapack solver with a symbolic number of items in the non-time dimensions: independent-iterations loop rule


class LapackColumnsLoop:
    """contract for `for i in np.ndindex(self._shape_no_t)` in _compute_inflow_lapack:
    iteration i writes column i of inflow_whole_period (all rows) with the solution of the triangular system for
    that column, reads nothing the loop writes, and touches no other column;  P(i): row equations hold for column i"""

    def __init__(self, W, S, stock, calls=None):
        self.W, self.S, self.stock = W, S, stock
        self.pre = None
        self.calls = calls if calls is not None else []

    def _X(self, L):
        return _solver_workspace(L, self.S)

    def havoc(self, L):
        self.name, self.f = symnp.havoc(self._X(L), "XL")

    def before_body(self, L, idx):
        X = self._X(L)
        pre = X.frozen()
        self.before = lambda *i: wrap(pre(tuple(i)))
        self.n_readers = X._buf.n_frozen

    def after_body(self, L, idx):
        W, S = self.W, self.S
        X = self._X(L)
        W.prove("lapack.loop.iteration_reads_nothing_the_loop_writes", X._buf.n_frozen == self.n_readers, kind="invariant", detail="iterations must be independent")
        post_f = X.frozen()
        post = lambda *i: wrap(post_f(tuple(i)))
        k = W.fresh_int("lc_k", 0, S.n)
        r = tuple(W.fresh_int(f"lc_r{j}", 0, e) for j, e in enumerate(S.esizes))
        other = core.sor(*[a != b for a, b in zip(r, idx)]) if r else False
        W.prove("lapack.loop.other_columns_untouched", core.simplies(other, W.num_eq(post(k, *r), self.before(k, *r))), kind="invariant")
        k2 = W.fresh_int("lc_k2", 0, S.n)
        if self.calls:
            xs = self.calls[-1][2]  # what the callee returned in this iteration (its contract: row equations)
            sf = S.rd(S.sf)
            W.lemma_sum_ext("lapack.loop.column_is_the_callee_result", 0, k2, lambda j: sf(k2, j, *idx) * post(j, *idx), lambda j: sf(k2, j, *idx) * wrap(xs.at(j)))
        W.prove("lapack.loop.column_solved", row_equation(W, S, lambda j, *rr: post(j, *idx), self.stock, k2, idx), kind="invariant", detail="row equations hold for the column written in this iteration")

    def assume_all(self, L):
        W, S = self.W, self.S
        X = self._X(L)
        ex = X.frozen()
        self.pre = lambda *i: wrap(ex(tuple(i)))
        zn = to_int(S.n)
        es = [to_int(e) for e in S.esizes]
        stock, prex = self.stock, self.pre

        def fact(k, *r):
            rng = [k >= 0, k < zn] + [z3.And(a >= 0, a < e) for a, e in zip(r, es)]
            return z3.Implies(z3.And(*rng), core.as_z3_bool(row_equation(W, S, prex, stock, wrap(k), tuple(wrap(a) for a in r))))

        W.c.add_trigger(self.name, fact)


# ----------------------------------------------------------------------------------------
# results do not depend on the memory layout of the arrays a stock holds (bounded: concrete arrays only -- the
# symbolic arrays have no memory layout; an array's logical content is all the symbolic units talk about)


def _with_layout(np, v, layout, rng):
    """the same logical array in another memory layout"""
    v = np.array(v, dtype=float)
    if layout == "fortran":
        return np.asfortranarray(v)
    if layout == "permuted_strides":
        perm = list(range(v.ndim))
        rng.shuffle(perm)
        if perm == sorted(perm) and v.ndim > 1:
            perm = perm[1:] + perm[:1]
        inv = [perm.index(i) for i in range(v.ndim)]
        return np.ascontiguousarray(v.transpose(perm)).transpose(inv)
    if layout == "every_other_element":
        big = np.full(v.shape[:-1] + (2 * v.shape[-1],), -777.0)
        view = big[..., ::2]
        view[...] = v
        return view
    if layout == "reversed_strides":
        big = np.ascontiguousarray(v[::-1])
        return big[::-1]
    return np.ascontiguousarray(v)


@unit(
    "stocks.memory_layouts.bounded",
    props=["C17", "C03", "C09", "C10"],
    targets=["flodym.stocks.InflowDrivenDSM.compute", "flodym.stocks.StockDrivenDSM.compute", "flodym.stocks.SimpleFlowDrivenStock.compute", "flodym.stocks.StockDrivenDSM._compute_inflow_lapack", "flodym.stocks.StockDrivenDSM._compute_inflow_manual"],
    skeletons=lambda tier: [{"model": m, "solver": s, "layout": l} for (m, s) in (("inflow", None), ("stock", "manual"), ("stock", "lapack"), ("flow", None)) for l in ("fortran", "permuted_strides", "every_other_element", "reversed_strides")],
    mode="bounded",
    note="two non-time dimensions; the arrays the stock holds (driver and result arrays, given by the caller and holding earlier numbers) are column-major, have permuted or negative strides, or are views of every other element of a larger buffer: compute(), and compute() again after the driver changed in place, give what a stock with freshly allocated row-major arrays gives",
)
def u_memory_layouts(W, sk):
    import numpy as np
    import flodym.stocks as st
    from flodym.dimensions import Dimension, DimensionSet
    from flodym.flodym_arrays import StockArray
    from flodym.lifetime_models import NormalLifetime, WeibullLifetime

    rng = W.rng
    n = rng.choice([3, 4, 5])
    items, y = [], 1990
    for _ in range(n):
        items.append(y)
        y += rng.choice([1, 1, 2, 5])
    T = Dimension(name="Time", letter="t", items=items, dtype=int)
    na, nb = rng.choice([1, 2, 3]), rng.choice([2, 3])
    if getattr(W, "square", False):
        na = nb = n
    A = Dimension(name="Region", letter="r", items=[f"r{i}" for i in range(na)])
    B = Dimension(name="Good", letter="g", items=[f"g{i}" for i in range(nb)])
    dl = [T, A, B]
    shape = (n, na, nb)
    kind, layout = sk["model"], sk["layout"]
    cls = {"flow": st.SimpleFlowDrivenStock, "inflow": st.InflowDrivenDSM, "stock": st.StockDrivenDSM}[kind]
    rnd = lambda: np.array([round(1.0 + 9 * rng.random(), 3) for _ in range(int(np.prod(shape)))]).reshape(shape)
    vals = {nm: rnd() for nm in ("stock", "inflow", "outflow")}
    mean, std = 2.0 + rnd() / 3, 0.5 + rnd() / 10
    second = {nm: rnd() for nm in ("stock", "inflow", "outflow")}
    W.inputs.update({"time_items": items, "shape": list(shape), "layout": layout, "values": {k: v.tolist() for k, v in vals.items()}, "second_driver": {k: v.tolist() for k, v in second.items()}, "mean": mean.tolist(), "std": std.tolist()})

    normal = rng.random() < 0.5
    W.inputs["lifetime"] = "normal" if normal else "weibull"

    def build(lay):
        ds = DimensionSet(dim_list=list(dl))
        args = dict(dims=ds, name="s", time_letter="t")
        for nm in ("stock", "inflow", "outflow"):
            args[nm] = StockArray(dims=ds, values=_with_layout(np, vals[nm], lay, rng), name=nm)
        if kind != "flow":
            if normal:
                args["lifetime_model"] = NormalLifetime(dims=ds, time_letter="t", mean=mean, std=std)
            else:
                args["lifetime_model"] = WeibullLifetime(dims=ds, time_letter="t", weibull_shape=1.0 + std, weibull_scale=mean)
            if kind == "stock":
                args["solver"] = sk["solver"]
        return cls(**args)

    test = build(layout)
    ref = build("row_major")
    drivers = {"inflow": ["inflow"], "stock": ["stock"], "flow": ["inflow", "outflow"]}[kind]

    def results(s):
        r = {nm: np.array(getattr(s, nm).values) for nm in ("stock", "inflow", "outflow")}
        if kind != "flow":
            r["stock_by_cohort"] = np.array(s._stock_by_cohort)
            r["outflow_by_cohort"] = np.array(s._outflow_by_cohort)
        return r

    def same(a, b):
        return a.shape == b.shape and bool(np.allclose(a, b, rtol=1e-10, atol=1e-12 * W.scale if hasattr(W, "scale") else 1e-12, equal_nan=True))

    for rnd_no in ("first", "second"):
        with np.errstate(all="ignore"):
            o1 = W.call(lambda: test.compute())
            o2 = W.call(lambda: ref.compute())
        W.prove(f"layouts.{rnd_no}_compute.returns", o1.kind == "return" and o2.kind == "return", detail=f"{o1!r} / reference {o2!r}")
        if o1.kind != "return" or o2.kind != "return":
            return
        r1, r2 = results(test), results(ref)
        for nm in r1:
            W.prove(f"layouts.{rnd_no}_compute.{nm}_as_with_row_major_arrays", same(r1[nm], r2[nm]), detail=f"{nm} differs by up to {float(np.max(np.abs(r1[nm] - r2[nm]))) if r1[nm].shape == r2[nm].shape else 'shape'}")
        for d in drivers:
            getattr(test, d).values[...] = second[d]
            getattr(ref, d).values[...] = second[d]
