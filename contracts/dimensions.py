"""Contracts for flodym/dimensions.py (property C14; also used by C13/C15 through `wf`).

Abstract view: view(s) = the list of Dimension objects of s, in order.  wf(s): letters pairwise
distinct and s.dim_list referenced by s only.  Every operation states its complete effect on the
view of every participating set, its result's view, and freshness of result and result list.
Skeleton: receiver letters, argument letters (ordered, quotiented by renaming), whether shared
letters are the same Dimension object or a twin (same letter, other name and items).
Everything else about a Dimension (items, their number, dtype) is symbolic / opaque.
"""
from __future__ import annotations

import itertools

from fvc.units import unit
from fvc.harness import SpecRaise

ALPHA = "abcde"
NEW = "vwxyz"


# ----------------------------------------------------------------------------------------
# skeleton enumeration


def operand_pairs(max_rank):
    """x = first kx letters of ALPHA; y = ordered selection of distinct symbols from x's letters and
    new letters, new letters appearing in canonical order."""
    out = []
    for kx in range(max_rank + 1):
        x = ALPHA[:kx]
        for ky in range(max_rank + 1):
            for n_new in range(ky + 1):
                n_sh = ky - n_new
                if n_sh > kx:
                    continue
                news = NEW[:n_new]
                for shared in itertools.permutations(x, n_sh):
                    # interleavings of shared (in this order) and news (in canonical order)
                    for pos in itertools.combinations(range(ky), n_new):
                        y = []
                        si, ni = iter(shared), iter(news)
                        for j in range(ky):
                            y.append(next(ni) if j in pos else next(si))
                        out.append((x, "".join(y)))
    return out


def _rank(tier, quick=3, thorough=4):
    return thorough if tier == "thorough" else quick


def name_of(letter, twin=False):
    return f"Dim{letter.upper()}{letter}" + ("Twin" if twin else "")


class Sets:
    """objects for one skeleton"""

    def __init__(self, W, x, y, twin=False):
        from flodym.dimensions import DimensionSet

        self.W = W
        self.dim = {}
        for l in x:
            self.dim[l] = W.dim(l)
        self.ydim = {}
        for l in y:
            if l in self.dim:
                self.ydim[l] = W.dim(l, name=name_of(l, True), tag=l + "_twin") if twin else self.dim[l]
            else:
                self.ydim[l] = W.dim(l)
        self.x = mk_set(W, [self.dim[l] for l in x])
        self.y = mk_set(W, [self.ydim[l] for l in y])
        self.pre = [self.x, self.y]


def mk_set(W, dims):
    from flodym.dimensions import DimensionSet

    if W.symbolic:
        return DimensionSet.model_construct(dim_list=list(dims))
    return DimensionSet(dim_list=list(dims))


def snapshot(sets):
    return [(s, s.dim_list, list(s.dim_list)) for s in sets]


def check_frame(W, name, snap):
    for k, (s, lst, content) in enumerate(snap):
        W.prove(f"{name}.frame[{k}].same_list_object", s.dim_list is lst, kind="frame")
        W.prove(
            f"{name}.frame[{k}].view_unchanged",
            len(s.dim_list) == len(content) and all(a is b for a, b in zip(s.dim_list, content)),
            kind="frame",
        )


def check_result_set(W, name, out, expected, snap, fresh=True):
    from flodym.dimensions import DimensionSet

    W.prove(f"{name}.returns", out.kind == "return", detail=repr(out))
    if out.kind != "return":
        return
    r = out.value
    W.prove(f"{name}.is_dimset", isinstance(r, DimensionSet))
    if not isinstance(r, DimensionSet):
        return
    W.prove(f"{name}.view", len(r.dim_list) == len(expected) and all(a is b for a, b in zip(r.dim_list, expected)), detail=f"got {[d.letter for d in r.dim_list]} want {[d.letter for d in expected]}")
    letters = [d.letter for d in r.dim_list]
    W.prove(f"{name}.letters_unique", len(set(letters)) == len(letters))
    if fresh:
        W.prove(f"{name}.result_fresh", all(r is not s for s, _, _ in snap), kind="ownership")
        W.prove(f"{name}.result_list_fresh", all(r.dim_list is not lst for _, lst, _ in snap), kind="ownership")


def check_raises(W, name, out, exc_type):
    W.prove(f"{name}.raises_{exc_type.__name__}", out.kind == "raise" and isinstance(out.exc, exc_type), detail=repr(out))


# ----------------------------------------------------------------------------------------
# specs (ordered-list model), transcribed from the statement of C14


def spec_union(xs, ys):
    lx = {d.letter for d in xs}
    return list(xs) + [d for d in ys if d.letter not in lx]


def spec_intersect(xs, ys):
    ly = {d.letter for d in ys}
    return [d for d in xs if d.letter in ly]


def spec_difference(xs, ys):
    ly = {d.letter for d in ys}
    return [d for d in xs if d.letter not in ly]


def spec_xor(xs, ys):
    return spec_union(spec_difference(xs, ys), spec_difference(ys, xs))


SETOPS = {
    "union_with": (lambda x, y: x.union_with(y), spec_union),
    "or": (lambda x, y: x | y, spec_union),
    "intersect_with": (lambda x, y: x.intersect_with(y), spec_intersect),
    "and": (lambda x, y: x & y, spec_intersect),
    "difference_with": (lambda x, y: x.difference_with(y), spec_difference),
    "sub": (lambda x, y: x - y, spec_difference),
    "xor": (lambda x, y: x ^ y, spec_xor),
}


def _c14_rank(tier):
    """alphabet bound of the set-operator units: 5 letters per set in the thorough tier when C14 itself is checked"""
    import os

    return _rank(tier, 3, 5 if os.environ.get("FVC_PROP") == "C14" else 4)


def sk_setops(tier):
    out = []
    for x, y in operand_pairs(_c14_rank(tier)):
        for op in SETOPS:
            if tier == "quick" and op in ("or", "and", "sub") and len(x) + len(y) > 4:
                continue
            out.append({"op": op, "x": x, "y": y, "twin": False})
            if any(l in x for l in y) and (tier == "thorough" or len(x) + len(y) <= 4):
                out.append({"op": op, "x": x, "y": y, "twin": True})
    return out


@unit(
    "dimset.setops",
    props=["C14", "C15"],
    targets=[
        "flodym.dimensions.DimensionSet.union_with",
        "flodym.dimensions.DimensionSet.intersect_with",
        "flodym.dimensions.DimensionSet.difference_with",
        "flodym.dimensions.DimensionSet.__xor__",
        "flodym.dimensions.DimensionSet.__or__",
        "flodym.dimensions.DimensionSet.__and__",
        "flodym.dimensions.DimensionSet.__sub__",
        "flodym.dimensions.DimensionSet.prepare_other",
        "flodym.dimensions.DimensionSet.expand_by",
        "flodym.dimensions.DimensionSet.get_subset",
    ],
    skeletons=sk_setops,
    inlined=["flodym.dimensions.DimensionSet.letters", "flodym.dimensions.DimensionSet._full_mapping"],
)
def u_setops(W, sk):
    S = Sets(W, sk["x"], sk["y"], sk["twin"])
    call, spec = SETOPS[sk["op"]]
    snap = snapshot(S.pre)
    xs, ys = list(S.x.dim_list), list(S.y.dim_list)
    out = W.call(lambda: call(S.x, S.y))
    check_result_set(W, sk["op"], out, spec(xs, ys), snap)
    check_frame(W, sk["op"], snap)


def sk_single(tier):
    out = []
    r = _rank(tier)
    for kx in range(r + 1):
        x = ALPHA[:kx]
        for l in list(x) + ["v"]:
            for twin in (False, True):
                if twin and l not in x:
                    continue
                out.append({"x": x, "l": l, "twin": twin})
    return out


@unit(
    "dimset.setops_with_dimension",
    props=["C14"],
    targets=["flodym.dimensions.DimensionSet.prepare_other", "flodym.dimensions.Dimension.as_dimset", "flodym.dimensions.Dimension.__add__"],
    skeletons=sk_single,
    note="argument given as a single Dimension (treated as a one-element set); a non-dimension argument must raise TypeError",
)
def u_setops_dim(W, sk):
    S = Sets(W, sk["x"], sk["l"], sk["twin"])
    d = S.y.dim_list[0]
    xs = list(S.x.dim_list)
    snap = snapshot([S.x])
    for op, (call, spec) in SETOPS.items():
        if op in ("or", "and", "sub", "xor"):
            continue  # x ^ Dimension raises TypeError (Dimension - DimensionSet is undefined): outside the statement, see DESIGN
        out = W.call(lambda: call(S.x, d))
        check_result_set(W, f"{op}(dim)", out, spec(xs, [d]), snap)
    # '+' with a single dimension, both orders
    clash = d.letter in sk["x"]
    out = W.call(lambda: S.x + d)
    if clash:
        check_raises(W, "add(dim)", out, ValueError)
    else:
        check_result_set(W, "add(dim)", out, xs + [d], snap)
    out = W.call(lambda: d + S.x)
    if clash:
        check_raises(W, "dim+set", out, ValueError)
    else:
        check_result_set(W, "dim+set", out, [d] + xs, snap)
    if xs:
        d0 = xs[0]
        out = W.call(lambda: d0 + d)
        if d0.letter == d.letter:
            check_raises(W, "dim+dim", out, ValueError)
        else:
            check_result_set(W, "dim+dim", out, [d0, d], snap)
    out = W.call(lambda: d.as_dimset())
    check_result_set(W, "as_dimset", out, [d], snap)
    out = W.call(lambda: S.x | 3)
    check_raises(W, "union(non-dimension)", out, TypeError)
    out = W.call(lambda: d + 3)
    check_raises(W, "dim+non-dimension", out, TypeError)
    check_frame(W, "setops_with_dimension", snap)


def sk_add(tier):
    out = []
    for x, y in operand_pairs(_c14_rank(tier)):
        out.append({"x": x, "y": y, "twin": False})
        if any(l in x for l in y) and len(x) + len(y) <= 5:
            out.append({"x": x, "y": y, "twin": True})
    return out


@unit(
    "dimset.add",
    props=["C14"],
    targets=["flodym.dimensions.DimensionSet.__add__"],
    skeletons=sk_add,
)
def u_add(W, sk):
    S = Sets(W, sk["x"], sk["y"], sk["twin"])
    snap = snapshot(S.pre)
    xs, ys = list(S.x.dim_list), list(S.y.dim_list)
    out = W.call(lambda: S.x + S.y)
    if any(l in sk["x"] for l in sk["y"]):
        check_raises(W, "add", out, ValueError)
    else:
        check_result_set(W, "add", out, xs + ys, snap)
    check_frame(W, "add", snap)


# ---- selection and lookup


def key_styles(dims, style):
    """keys naming the dims by letter / name / mixed"""
    keys = []
    for j, d in enumerate(dims):
        if style == "letters" or (style == "mixed" and j % 2 == 0):
            keys.append(d.letter)
        else:
            keys.append(d.name)
    return tuple(keys)


def sk_subset(tier):
    out = []
    r = _rank(tier, 4, 5)
    for kx in range(r + 1):
        x = ALPHA[:kx]
        for m in range(kx + 1):
            for sel in itertools.permutations(x, m):
                for style in ("letters", "names", "mixed"):
                    if style != "letters" and m == 0:
                        continue
                    if tier == "quick" and style == "mixed" and m > 3:
                        continue
                    out.append({"x": x, "sel": "".join(sel), "style": style})
    return out


@unit(
    "dimset.get_subset",
    props=["C14", "C15"],
    targets=["flodym.dimensions.DimensionSet.get_subset", "flodym.dimensions.DimensionSet.__getitem__"],
    skeletons=sk_subset,
    note="precondition: the requested keys name pairwise distinct dimensions (the statement speaks of selecting a subset)",
)
def u_get_subset(W, sk):
    S = Sets(W, sk["x"], "")
    snap = snapshot([S.x])
    want = [S.dim[l] for l in sk["sel"]]
    keys = key_styles(want, sk["style"])
    out = W.call(lambda: S.x.get_subset(keys))
    check_result_set(W, "get_subset", out, want, snap)
    out = W.call(lambda: S.x[keys])
    check_result_set(W, "getitem_tuple", out, want, snap)
    out = W.call(lambda: S.x.get_subset(list(keys)))
    check_result_set(W, "get_subset_list", out, want, snap)
    out = W.call(lambda: S.x.get_subset(keys + ("q",)))
    check_raises(W, "get_subset_unknown", out, KeyError)
    check_frame(W, "get_subset", snap)


def sk_rank_only(tier):
    return [{"x": ALPHA[:k]} for k in range(_rank(tier, 4, 5) + 1)]


@unit(
    "dimset.copy_and_default_subset",
    props=["C14", "C15"],
    targets=["flodym.dimensions.DimensionSet.get_subset", "flodym.dimensions.DimensionSet.copy", "flodym.dimensions.DimensionSet.empty"],
    skeletons=sk_rank_only,
)
def u_copy(W, sk):
    S = Sets(W, sk["x"], "")
    snap = snapshot([S.x])
    xs = list(S.x.dim_list)
    out = W.call(lambda: S.x.copy())
    check_result_set(W, "copy", out, xs, snap)
    out = W.call(lambda: S.x.get_subset())
    check_result_set(W, "get_subset()", out, xs, snap)
    out = W.call(lambda: S.x.get_subset(None))
    check_result_set(W, "get_subset(None)", out, xs, snap)
    from flodym.dimensions import DimensionSet

    out = W.call(lambda: DimensionSet.empty())
    check_result_set(W, "empty", out, [], snap)
    check_frame(W, "copy", snap)


@unit(
    "dimset.lookup",
    props=["C14"],
    targets=[
        "flodym.dimensions.DimensionSet.__getitem__",
        "flodym.dimensions.DimensionSet.__contains__",
        "flodym.dimensions.DimensionSet.index",
        "flodym.dimensions.DimensionSet.size",
        "flodym.dimensions.DimensionSet.shape",
        "flodym.dimensions.DimensionSet.total_size",
        "flodym.dimensions.DimensionSet.ndim",
        "flodym.dimensions.DimensionSet.__len__",
        "flodym.dimensions.DimensionSet.__bool__",
        "flodym.dimensions.DimensionSet.names",
        "flodym.dimensions.DimensionSet.letters",
        "flodym.dimensions.DimensionSet.string",
        "flodym.dimensions.DimensionSet.__iter__",
        "flodym.dimensions.Dimension.len",
    ],
    skeletons=sk_rank_only,
)
def u_lookup(W, sk):
    S = Sets(W, sk["x"], "")
    snap = snapshot([S.x])
    xs = list(S.x.dim_list)
    n = len(xs)
    sizes = [W.size_of(d) for d in xs]

    def ret(name, thunk, pred):
        out = W.call(thunk)
        W.prove(f"{name}.returns", out.kind == "return", detail=repr(out))
        if out.kind == "return":
            W.prove(f"{name}.value", pred(out.value), detail=repr(out.value))

    for j, d in enumerate(xs):
        ret(f"getitem[letter {j}]", lambda: S.x[d.letter], lambda v: v is d)
        ret(f"getitem[name {j}]", lambda: S.x[d.name], lambda v: v is d)
        ret(f"getitem[pos {j}]", lambda: S.x[j], lambda v: v is d)
        ret(f"getitem[neg {j}]", lambda: S.x[j - n], lambda v: v is d)
        ret(f"contains[letter {j}]", lambda: d.letter in S.x, lambda v: v is True)
        ret(f"contains[name {j}]", lambda: d.name in S.x, lambda v: v is True)
        ret(f"contains[dim {j}]", lambda: d in S.x, lambda v: v is True)
        ret(f"index[letter {j}]", lambda: S.x.index(d.letter), lambda v: v == j)
        ret(f"index[name {j}]", lambda: S.x.index(d.name), lambda v: v == j)
        ret(f"size[letter {j}]", lambda: S.x.size(d.letter), lambda v: W.size_eq(v, sizes[j]))
        ret(f"size[name {j}]", lambda: S.x.size(d.name), lambda v: W.size_eq(v, sizes[j]))
    other = W.dim("q")
    twin = W.dim(xs[0].letter, name="Twinned", tag="twin0") if xs else None
    ret("contains[unknown letter]", lambda: "q" in S.x, lambda v: v is False)
    ret("contains[unknown dim]", lambda: other in S.x, lambda v: v is False)
    if twin is not None:
        ret("contains[same-letter dim]", lambda: twin in S.x, lambda v: v is True)
    check_raises(W, "getitem[unknown]", W.call(lambda: S.x["q"]), KeyError)
    check_raises(W, "getitem[pos n]", W.call(lambda: S.x[n]), IndexError)
    check_raises(W, "getitem[bad type]", W.call(lambda: S.x[1.5]), TypeError)
    check_raises(W, "index[unknown]", W.call(lambda: S.x.index("q")), KeyError)
    check_raises(W, "size[unknown]", W.call(lambda: S.x.size("q")), KeyError)
    ret("shape", lambda: S.x.shape, lambda v: isinstance(v, tuple) and len(v) == n and all(bool(W.size_eq(a, b)) for a, b in zip(v, sizes)))
    prod = 1
    for s in sizes:
        prod = prod * s
    ret("total_size", lambda: S.x.total_size, lambda v: W.size_eq(v, prod))
    ret("ndim", lambda: S.x.ndim, lambda v: v == n)
    ret("len", lambda: len(S.x), lambda v: v == n)
    ret("bool", lambda: bool(S.x), lambda v: v is (n > 0))
    ret("names", lambda: S.x.names, lambda v: v == tuple(d.name for d in xs))
    ret("letters", lambda: S.x.letters, lambda v: v == tuple(d.letter for d in xs))
    ret("string", lambda: S.x.string, lambda v: v == "".join(d.letter for d in xs))
    ret("iter", lambda: list(S.x), lambda v: len(v) == n and all(a is b for a, b in zip(v, xs)))
    check_frame(W, "lookup", snap)


# ---- mutators


def sk_mutators(tier):
    out = []
    r = _rank(tier, 3, 4)
    for kx in range(r + 1):
        x = ALPHA[:kx]
        for inplace in (False, True):
            for new in ["v"] + [("same", l) for l in x] + [("twin", l) for l in x]:
                out.append({"x": x, "inplace": inplace, "new": new})
    return out


def _new_dim(W, S, new):
    if new == "v":
        return W.dim("v"), False
    kind, l = new
    if kind == "same":
        return S.dim[l], True
    return W.dim(l, name=name_of(l, True), tag=l + "_twin"), True


def check_lookups(W, name, ds, expected, before):
    """every way of asking the set about a dimension agrees with its list: membership, lookup by letter / name,
    position; dimensions that are no longer (or never were) in the list are unknown to all of them"""
    ok, why = True, ""
    for pos, d in enumerate(expected):
        for key in (d.letter, d.name):
            try:
                good = (key in ds) and (ds[key] is d) and ds.index(key) == pos
            except Exception as e:  # noqa: BLE001
                good, why = False, f"{key}: {type(e).__name__}"
            if not good:
                ok, why = False, why or f"lookup of {key!r} disagrees with the list"
    for d in before:
        if any(d is e for e in expected) or any(d.letter == e.letter or d.name == e.name for e in expected):
            continue
        for key in (d.letter, d.name):
            known = key in ds
            try:
                ds[key]
                found = True
            except KeyError:
                found = False
            except Exception as e:  # noqa: BLE001
                found, why = True, f"{key}: {type(e).__name__}"
            if known or found:
                ok, why = False, why or f"{key!r} is still known to the set after it left the list"
    W.prove(f"{name}.lookups_agree_with_the_list", ok, detail=why)


def check_mutation(W, name, S, out, inplace, expected, clash, snap, exc=ValueError):
    xs_before = snap[0][2]
    if clash:
        check_raises(W, name, out, exc)
        check_frame(W, name, snap)
        return
    if inplace:
        W.prove(f"{name}.returns_none", out.kind == "return" and out.value is None, detail=repr(out))
        W.prove(f"{name}.same_list_object", S.x.dim_list is snap[0][1], kind="frame")
        W.prove(f"{name}.view", len(S.x.dim_list) == len(expected) and all(a is b for a, b in zip(S.x.dim_list, expected)), detail=f"got {[d.letter for d in S.x.dim_list]}")
        letters = [d.letter for d in S.x.dim_list]
        W.prove(f"{name}.letters_unique", len(set(letters)) == len(letters))
        check_lookups(W, name, S.x, expected, xs_before)
        # undo for the next operation of the unit: a fresh set over the original list (no state of the mutated
        # object is carried into the next operation)
        S.x = mk_set(W, xs_before)
        snap[0] = (S.x, S.x.dim_list, list(S.x.dim_list))
    else:
        check_result_set(W, name, out, expected, snap)
        check_frame(W, name, snap)


@unit(
    "dimset.mutators",
    props=["C14", "C15"],
    targets=[
        "flodym.dimensions.DimensionSet.append",
        "flodym.dimensions.DimensionSet.prepend",
        "flodym.dimensions.DimensionSet.insert",
        "flodym.dimensions.DimensionSet.expand_by",
        "flodym.dimensions.DimensionSet._check_additional_dim",
        "flodym.dimensions.DimensionSet.__add__",
        "flodym.dimensions.Dimension.__add__",
    ],
    skeletons=sk_mutators,
    note="new dimension: new letter / the very Dimension already in the set / a twin (same letter, other name and items)",
)
def u_mutators(W, sk):
    S = Sets(W, sk["x"], "")
    new, clash = _new_dim(W, S, sk["new"])
    ip = sk["inplace"]
    xs = list(S.x.dim_list)
    n = len(xs)
    snap = snapshot([S.x])
    check_mutation(W, "append", S, W.call(lambda: S.x.append(new, inplace=ip)), ip, xs + [new], clash, snap)
    check_mutation(W, "prepend", S, W.call(lambda: S.x.prepend(new, inplace=ip)), ip, [new] + xs, clash, snap)
    for pos in range(-1, n + 2):
        exp = list(xs)
        exp.insert(pos, new)
        check_mutation(W, f"insert[{pos}]", S, W.call(lambda: S.x.insert(pos, new, inplace=ip)), ip, exp, clash, snap)
    check_mutation(W, "expand_by", S, W.call(lambda: S.x.expand_by([new], inplace=ip)), ip, xs + [new], clash, snap)
    other = W.dim("w")
    check_mutation(W, "expand_by2", S, W.call(lambda: S.x.expand_by([other, new], inplace=ip)), ip, xs + [other, new], clash, snap)
    check_mutation(W, "extend", S, W.call(lambda: S.x.extend([new], inplace=ip)), ip, xs + [new], clash, snap)
    check_mutation(W, "append(non-dimension)", S, W.call(lambda: S.x.append("v", inplace=ip)), ip, None, True, snap, exc=TypeError)


def sk_drop_replace(tier):
    out = []
    r = _rank(tier, 3, 4)
    for kx in range(1, r + 1):
        x = ALPHA[:kx]
        for inplace in (False, True):
            for j in range(kx):
                for style in ("letter", "name"):
                    out.append({"x": x, "inplace": inplace, "j": j, "style": style})
    return out


@unit(
    "dimset.drop_replace",
    props=["C14", "C15"],
    targets=["flodym.dimensions.DimensionSet.drop", "flodym.dimensions.DimensionSet.replace", "flodym.dimensions.DimensionSet.index"],
    skeletons=sk_drop_replace,
)
def u_drop_replace(W, sk):
    S = Sets(W, sk["x"], "")
    ip, j = sk["inplace"], sk["j"]
    xs = list(S.x.dim_list)
    key = xs[j].letter if sk["style"] == "letter" else xs[j].name
    snap = snapshot([S.x])
    check_mutation(W, "drop", S, W.call(lambda: S.x.drop(key, inplace=ip)), ip, xs[:j] + xs[j + 1 :], False, snap)
    check_mutation(W, "remove", S, W.call(lambda: S.x.remove(key, inplace=ip)), ip, xs[:j] + xs[j + 1 :], False, snap)
    check_mutation(W, "drop(unknown)", S, W.call(lambda: S.x.drop("q", inplace=ip)), ip, None, True, snap, exc=KeyError)
    new = W.dim("v")
    check_mutation(W, "replace", S, W.call(lambda: S.x.replace(key, new, inplace=ip)), ip, xs[:j] + [new] + xs[j + 1 :], False, snap)
    for k, d in enumerate(xs):
        twin = W.dim(d.letter, name=name_of(d.letter, True), tag=f"{d.letter}_twin")
        check_mutation(W, f"replace(clash {k})", S, W.call(lambda: S.x.replace(key, twin, inplace=ip)), ip, None, True, snap)
        if k != j:
            # ... also when the newcomer carries the *name* of the dimension it replaces (an "updated version" of it)
            # but the letter of another member
            namesake = W.dim(d.letter, name=xs[j].name, tag=f"{d.letter}_namesake")
            check_mutation(W, f"replace(namesake with the letter of member {k})", S, W.call(lambda: S.x.replace(key, namesake, inplace=ip)), ip, None, True, snap)
    check_mutation(W, "replace(unknown key)", S, W.call(lambda: S.x.replace("q", new, inplace=ip)), ip, None, True, snap, exc=KeyError)


# ---- constructor


def sk_ctor(tier):
    out = []
    r = _rank(tier, 3, 4)
    for k in range(r + 1):
        for seq in itertools.product(range(k), repeat=k):
            # canonical: restricted growth string
            if list(seq) != _rgs(seq):
                continue
            out.append({"letters": "".join(ALPHA[i] for i in seq)})
    return out


def _rgs(seq):
    m = {}
    out = []
    for s in seq:
        if s not in m:
            m[s] = len(m)
        out.append(m[s])
    return out


@unit(
    "dimset.constructor",
    props=["C14", "C15", "C13"],
    targets=["flodym.dimensions.DimensionSet.no_repeated_dimensions", "flodym.dimensions.DimensionSet.copy_dim_list"],
    skeletons=sk_ctor,
    note="constructor called with a caller-owned list; repeated letters are twins (distinct objects with the same letter)",
)
def u_ctor(W, sk):
    from flodym.dimensions import DimensionSet

    seen = {}
    dims = []
    for j, l in enumerate(sk["letters"]):
        if l in seen:
            dims.append(W.dim(l, name=f"Again{j}", tag=f"{l}_{j}"))
        else:
            seen[l] = True
            dims.append(W.dim(l))
    lst = list(dims)
    content = list(lst)
    out = W.call(lambda: DimensionSet(dim_list=lst))
    if len(set(sk["letters"])) != len(sk["letters"]):
        check_raises(W, "ctor(duplicate letters)", out, ValueError)
    else:
        check_result_set(W, "ctor", out, dims, [(None, lst, content)])
    W.prove("ctor.argument_list_unchanged", len(lst) == len(content) and all(a is b for a, b in zip(lst, content)), kind="frame")


# ---- vacuity guard: a deliberately wrong contract must be refuted and replay natively


@unit(
    "dimset.mustfail_union_right_order",
    props=["C14"],
    targets=["flodym.dimensions.DimensionSet.union_with"],
    skeletons=lambda tier: [{"x": "ab", "y": "cb"}],
    expect="refuted",
)
def u_mustfail(W, sk):
    S = Sets(W, sk["x"], sk["y"])
    snap = snapshot(S.pre)
    xs, ys = list(S.x.dim_list), list(S.y.dim_list)
    out = W.call(lambda: S.x.union_with(S.y))
    wrong = spec_union(ys, xs)
    check_result_set(W, "union(wrong: right operand first)", out, wrong, snap)
