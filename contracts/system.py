"""Contracts for flodym/mfa_system.py: _get_mass_balance, _absolute_float_precision, check_mass_balance,
check_flows (C02).

Skeleton: a small system graph (processes, flows with endpoints and dimension subsets/orders, stocks with or
without a process) from the list GRAPHS below -- graph shape is enumerated (bounded), all sizes and all
flow / stock values, the tolerance and the perturbation are symbolic.
The arithmetic on flows (-f, a+b, a-b, 0+a) runs through the real FlodymArray operators (contracts: C01).
NaN is not part of the real-number value model: the NaN clause is covered by a bounded unit on real floats.
"""
from __future__ import annotations

import itertools
import z3

from fvc import core, symnp, speclib as SL
from fvc.units import unit
from fvc.core import to_int, to_real, wrap

# (processes, flows [(from, to, letters)], stocks [(process or None, letters)])
GRAPHS = {
    "chain": (["sysenv", "A", "B"], [("sysenv", "A", "te"), ("A", "B", "te"), ("B", "sysenv", "te")], []),
    "chain_mixed_dims": (["sysenv", "A", "B"], [("sysenv", "A", "ter"), ("A", "B", "et"), ("B", "sysenv", "t")], []),
    "parallel_and_opposing": (["sysenv", "A", "B"], [("sysenv", "A", "te"), ("A", "B", "te"), ("A", "B", "et"), ("B", "A", "t"), ("B", "sysenv", "te")], []),
    "with_stock": (["sysenv", "A", "B"], [("sysenv", "A", "te"), ("A", "B", "te"), ("B", "sysenv", "te")], [("A", "te")]),
    "stock_other_dims": (["sysenv", "A"], [("sysenv", "A", "ter"), ("A", "sysenv", "te")], [("A", "tr")]),
    "stock_without_process": (["sysenv", "A"], [("sysenv", "A", "te"), ("A", "sysenv", "te")], [(None, "te")]),
    "idle_process": (["sysenv", "A", "Idle"], [("sysenv", "A", "te"), ("A", "sysenv", "te")], [("A", "t")]),
    "no_stocks_scalar_flows": (["sysenv", "A"], [("sysenv", "A", ""), ("A", "sysenv", "")], []),
    "no_flows": (["sysenv", "A"], [], [("A", "te")]),
    "self_loop": (["sysenv", "A"], [("sysenv", "A", "te"), ("A", "A", "te"), ("A", "sysenv", "te")], []),
    "two_stocks_one_process": (["sysenv", "A"], [("sysenv", "A", "te"), ("A", "sysenv", "te")], [("A", "te"), ("A", "t")]),
    "inner_ring_mixed_dims": (["sysenv", "A", "B", "C"], [("sysenv", "A", "te"), ("A", "B", "t"), ("B", "C", "te"), ("C", "A", "er"), ("C", "sysenv", "t")], []),
    "scalar_flow_after_dimensional": (["sysenv", "A", "B"], [("sysenv", "A", "te"), ("A", "B", ""), ("B", "sysenv", "e"), ("B", "sysenv", "")], []),
    "names_contain_each_other": (["sysenv", "A", "AB"], [("sysenv", "A", "te"), ("A", "AB", "te"), ("AB", "sysenv", "te"), ("sysenv", "AB", "t")], []),
    "inner_three_dims": (["sysenv", "A", "B"], [("sysenv", "A", "te"), ("A", "B", "ter"), ("B", "A", "ret"), ("B", "sysenv", "t")], []),
    "stocks_on_two_processes": (["sysenv", "A", "B"], [("sysenv", "A", "te"), ("A", "B", "et"), ("B", "sysenv", "t")], [("A", "te"), ("B", "tr"), (None, "t")]),
}


class System:
    def __init__(self, W, gname, table="as_listed"):
        """table: order of the process table (dict) relative to the process ids -- 'as_listed' (id = position, what
        make_processes gives) or 'permuted' (sysenv first, the others in reverse: ids are not positions)"""
        from flodym.mfa_system import MFASystem
        from flodym.processes import Process
        from flodym.flodym_arrays import Flow, StockArray
        from flodym.stocks import SimpleFlowDrivenStock
        from .dimensions import mk_set

        self.W = W
        procs, flows, stocks = GRAPHS[gname]
        self.D = {l: (W.dim(l, lo=3) if l == "t" else W.dim(l)) for l in "ter"}
        self.processes = {name: (Process.model_construct(name=name, id=i) if W.symbolic else Process(name=name, id=i)) for i, name in enumerate(procs)}
        if table == "permuted":
            names = list(self.processes)
            self.processes = {n: self.processes[n] for n in names[:1] + names[:0:-1]}
        self.flows = {}
        self.flow_list = []
        for k, (a, b, letters) in enumerate(flows):
            name = f"{a} => {b} #{k}"
            dims = [self.D[l] for l in letters]
            arr = W.array(f"f{k}", dims)
            if W.symbolic:
                fl = Flow.model_construct(dims=arr.dims, values=arr.values, name=name, from_process=self.processes[a], to_process=self.processes[b])
            else:
                fl = Flow(dims=arr.dims, values=arr.values, name=name, from_process=self.processes[a], to_process=self.processes[b])
            self.flows[name] = fl
            self.flow_list.append((fl, a, b))
        self.stocks = {}
        self.stock_list = []
        for k, (p, letters) in enumerate(stocks):
            dims = [self.D[l] for l in letters]
            inflow = W.array(f"s{k}_inflow", dims, cls=StockArray)
            outflow = W.array(f"s{k}_outflow", dims, cls=StockArray)
            stock = W.array(f"s{k}_stock", dims, cls=StockArray)
            proc = self.processes[p] if p is not None else None
            if W.symbolic:
                st = SimpleFlowDrivenStock.model_construct(dims=mk_set(W, dims), stock=stock, inflow=inflow, outflow=outflow, name=f"stock{k}", process=proc, time_letter="t")
            else:
                st = SimpleFlowDrivenStock(dims=mk_set(W, dims), stock=stock, inflow=inflow, outflow=outflow, name=f"stock{k}", process=proc, time_letter="t")
            self.stocks[st.name] = st
            self.stock_list.append((st, p))
        args = dict(dims=mk_set(W, [self.D[l] for l in "ter"]), parameters={}, processes=self.processes, flows=self.flows, stocks=self.stocks)
        self.mfa = MFASystem.model_construct(**args) if W.symbolic else MFASystem(**args)

    def arrays(self):
        out = [f for f, _, _ in self.flow_list]
        for st, _ in self.stock_list:
            out += [st.inflow, st.outflow, st.stock]
        return out

    def contributions(self, p):
        """specification: signed contributions of process p, in booking order (statement of C02)"""
        W = self.W
        parts = []
        for fl, a, b in self.flow_list:
            if a == p:
                parts.append((-1, SL.lab(W, fl)))
            if b == p:
                parts.append((+1, SL.lab(W, fl)))
        for st, sp in self.stock_list:
            if sp is None:
                continue
            I, O = SL.lab(W, st.inflow), SL.lab(W, st.outflow)
            change = SL.Lab(W, I.letters, I.dims, (lambda I, O: lambda asg: I.at(asg) - O.at(asg))(I, O))
            if sp == p:
                parts.append((-1, change))
            if p == "sysenv":
                parts.append((+1, change))
        return parts

    def balance_spec(self, p):
        parts = self.contributions(p)
        if not parts:
            return None
        K = tuple(l for l in parts[0][1].letters if all(l in q.letters for _, q in parts))
        margs = [(s, SL.marg(q, K)) for s, q in parts]
        dims = {l: parts[0][1].dims[l] for l in K}
        return SL.Lab(self.W, K, dims, lambda asg: sum((s * m.at(asg) for s, m in margs), 0))


def _generated_graphs(n=24, seed=20261004):
    """deterministic pseudo-random graphs for the thorough tier: <= 5 processes, <= 7 flows over random
    dimension subsets/orders, <= 2 stocks (with or without process)"""
    import random

    rng = random.Random(seed)
    dimsets = ["te", "et", "t", "ter", "tr", "rt", "", "e", "ret"]
    out = {}
    for k in range(n):
        procs = ["sysenv"] + [f"P{j}" for j in range(rng.randint(1, 4))]
        flows = []
        for _ in range(rng.randint(0, 7)):
            flows.append((rng.choice(procs), rng.choice(procs), rng.choice(dimsets)))
        stocks = []
        for _ in range(rng.randint(0, 2)):
            letters = rng.choice(["t", "te", "tr", "ter"])
            stocks.append((rng.choice(procs[1:] + [None]), letters))
        out[f"generated{k}"] = (procs, flows, stocks)
    return out


GRAPHS.update(_generated_graphs())
BASE_GRAPHS = [g for g in GRAPHS if not g.startswith("generated")]


def graph_names(tier):
    return list(GRAPHS) if tier == "thorough" else BASE_GRAPHS


def sk_graphs(tier):
    out = [{"graph": g} for g in graph_names(tier)]
    # the process table in another order than the ids
    out += [{"graph": g, "table": "permuted"} for g in BASE_GRAPHS if len(GRAPHS[g][0]) > 2]
    return out


MB_TARGETS = [
    "flodym.mfa_system.MFASystem._get_mass_balance",
    "flodym.mfa_system.MFASystem.check_mass_balance",
    "flodym.mfa_system.MFASystem._absolute_float_precision",
    "flodym.mfa_system.MFASystem._error_or_warning",
    "flodym.flodym_arrays.FlodymArray.__neg__",
    "flodym.flodym_arrays.FlodymArray.__add__",
    "flodym.flodym_arrays.FlodymArray.__sub__",
    "flodym.flodym_arrays.FlodymArray.__radd__",
]


@unit(
    "system.get_mass_balance",
    props=["C02"],
    targets=MB_TARGETS[:1],
    stubs=MB_TARGETS[4:],
    skeletons=sk_graphs,
    note="balance of every process = inflows - outflows - net stock addition (mirror on sysenv), each contribution summed to the dimensions common to all contributions of that process; a process without any contribution has the balance 0",
)
def u_get_mass_balance(W, sk):
    from .arrays import operator_contract_stubs

    S = System(W, sk["graph"], table=sk.get("table", "as_listed"))
    snaps = SL.snapshot(W, S.arrays())
    # modular: the arithmetic on flows goes through the *contracts* of the FlodymArray operators (stubs)
    out = W.call(lambda: S.mfa._get_mass_balance(), stubs=operator_contract_stubs(W))
    if W.symbolic and (S.flow_list or any(p is not None for _, p in S.stock_list)):
        W.prove("get_mass_balance.operator_contracts_were_used", len(W.called_stubs) > 0, kind="callee-pre")
    W.prove("get_mass_balance.returns", out.kind == "return", detail=repr(out))
    if out.kind != "return":
        return
    B = out.value
    W.prove("get_mass_balance.one_entry_per_process", isinstance(B, dict) and list(B.keys()) == list(S.processes.keys()))
    for p in S.processes:
        spec = S.balance_spec(p)
        from fvc.harness import Outcome

        if spec is None:
            spec = SL.Lab(W, (), {}, lambda asg: 0)
        SL.check_same_array(W, f"balance[{p}]", Outcome("return", B.get(p)), spec, require_fresh=False)
    SL.check_unchanged(W, "get_mass_balance", snaps)


def _abs(W, v):
    return abs(v)


def sk_check(tier):
    out = []
    for g in graph_names(tier):
        for tol in ("explicit", "default"):
            for raise_error in (True, False):
                out.append({"graph": g, "tol": tol, "raise_error": raise_error})
    return out


@unit(
    "system.check_mass_balance",
    props=["C02"],
    targets=MB_TARGETS[1:4],
    stubs=MB_TARGETS[:1],
    skeletons=sk_check,
    note="succeeds iff every entry of every process balance is within the tolerance in absolute value; raise_error=False never raises and logs a warning instead; default tolerance = 100 * eps * (largest absolute flow or stock value); the max-reductions are linked to entries by their definition (attained, dominates every entry)",
)
def u_check_mass_balance(W, sk):
    import flodym.mfa_system as ms

    S = System(W, sk["graph"], table=sk.get("table", "as_listed"))
    mfa = S.mfa
    snaps = SL.snapshot(W, S.arrays())
    warnings = []
    stubs = [(ms.logging, "warning", lambda *a, **k: warnings.append(a))]
    explicit = sk["tol"] == "explicit"
    if explicit:
        tol = W.number("tol")
        W.assume(tol >= 0) if W.symbolic else None
        if not W.symbolic:
            tol = abs(tol) * 0.1
    # modular: check_mass_balance is verified against the *contract* of _get_mass_balance (proved in
    # system.get_mass_balance): in the symbolic world the callee is replaced by a stub returning the specified balances
    if W.symbolic:
        from .arrays import materialize
        from flodym.mfa_system import MFASystem

        def gmb_contract(self):
            W.called_stubs.append("MFASystem._get_mass_balance")
            return {p: materialize(W, S.balance_spec(p) or SL.Lab(W, (), {}, lambda asg: 0)) for p in S.processes}

        stubs = stubs + [(MFASystem, "_get_mass_balance", gmb_contract)]
    pre = W.call(lambda: mfa._get_mass_balance(), stubs=stubs)
    if pre.kind != "return":
        # a system for which the balance cannot even be formed: check_mass_balance must not claim success silently;
        # the statement requires the check to work for every graph
        W.prove("check_mass_balance.balances_can_be_formed", False, detail=repr(pre))
        return
    B = pre.value
    specs = {p: (S.balance_spec(p) or SL.Lab(W, (), {}, lambda asg: 0)) for p in S.processes}
    if not explicit:
        afp = W.call(lambda: mfa._absolute_float_precision)
        W.prove("default_tolerance.can_be_formed", afp.kind == "return", detail=repr(afp))
        if afp.kind != "return":
            return
        import numpy as np

        eps = float(np.finfo(float).eps)
        tol = 100 * afp.value
        # contract of the default tolerance: eps * (largest magnitude among all flow and stock entries)
        mags = [f.values for f, _, _ in S.flow_list] + [st.stock.values for st, _ in S.stock_list]
        if W.symbolic:
            for k, a in enumerate(mags):
                idx = tuple(W.fresh_int(f"dom{k}_{j}", 0, s) for j, s in enumerate(W.shape_of(a)))
                if isinstance(a, symnp.SymArr) and a.ndim > 0:
                    W.c.assume(symnp.reduction_bound_fact(symnp.sym_max(symnp.sym_abs(a)), idx), why="definition of max")
                W.prove(f"default_tolerance.dominates[{k}]", afp.value >= eps * abs(W.elem(a, idx)), detail="default tolerance / 100 >= eps * |entry| for every flow and stock entry")
            W.prove("default_tolerance.non_negative", afp.value >= 0)
        else:
            want = eps * max([float(np.max(np.abs(a))) for a in mags] + [0.0])
            W.prove("default_tolerance.value", W.num_eq(afp.value, want))
    # definitional facts of the max terms the checker compares with the tolerance
    maxterm = {}
    if W.symbolic:
        for p, b in B.items():
            if hasattr(b, "values") and isinstance(b.values, symnp.SymArr) and b.values.ndim > 0:
                maxterm[p] = symnp.sym_max(symnp.sym_abs(b.values))
    out = W.call(lambda: mfa.check_mass_balance(tolerance=tol if explicit else None, raise_error=sk["raise_error"]), stubs=stubs)
    failed_reported = (out.kind == "raise") if sk["raise_error"] else bool(warnings)
    if out.kind == "raise":
        W.prove("check_mass_balance.raises_only_value_error_and_only_when_asked", sk["raise_error"] and isinstance(out.exc, ValueError), detail=repr(out))
        if not (sk["raise_error"] and isinstance(out.exc, ValueError)):
            return
    if not failed_reported:
        # success: every entry of every balance is within the tolerance
        for p in S.processes:
            spec = specs[p]
            b = B[p]

            def pred(idx, spec=spec, b=b, p=p):
                asg = dict(zip(spec.letters, idx))
                if W.symbolic and p in maxterm:
                    W.c.assume(symnp.reduction_bound_fact(maxterm[p], idx), why="definition of max")
                v = spec.at(asg)
                return abs(v) <= tol

            if W.symbolic:
                idx = tuple(W.fresh_int(f"ok_{p}_{j}", 0, s) for j, s in enumerate(spec.sizes()))
                asg = dict(zip(spec.letters, idx))
                # link: computed balance entry = specified entry (contract of _get_mass_balance, re-proved here)
                W.prove(f"check_mass_balance.success_implies_within_tolerance[{p}].balance_is_spec", W.num_eq(SL.lab(W, b).at(asg) if hasattr(b, "dims") and tuple(d.letter for d in b.dims.dim_list) == spec.letters else spec.at(asg), spec.at(asg)), kind="lemma-premise")
                W.prove(f"check_mass_balance.success_implies_within_tolerance[{p}]", pred(idx))
            else:
                W.forall_range(f"check_mass_balance.success_implies_within_tolerance[{p}]", [(0, s) for s in spec.sizes()], pred)
    else:
        # failure reported: some entry of some balance exceeds the tolerance
        if W.symbolic:
            wit = []
            for p in S.processes:
                spec = specs[p]
                b = B[p]
                if p in maxterm:
                    nm = str(core.unwrap(maxterm[p]).decl().name())
                    w = tuple(wrap(z3.Int(f"w_{nm}_{j}")) for j in range(len(spec.letters)))
                else:
                    w = ()
                asg = dict(zip(spec.letters, w))
                wit.append(abs(spec.at(asg)) > tol)
            W.prove("check_mass_balance.failure_implies_some_entry_exceeds_tolerance", core.sor(*wit))
        else:
            worst = 0.0
            for p in S.processes:
                spec = specs[p]
                for idx in itertools.product(*[range(int(s)) for s in spec.sizes()]):
                    worst = max(worst, abs(spec.at(dict(zip(spec.letters, idx)))))
            W.prove("check_mass_balance.failure_implies_some_entry_exceeds_tolerance", worst > tol, detail=f"worst {worst} tol {tol}")
    if not sk["raise_error"]:
        W.prove("check_mass_balance.raise_error_false_never_raises", out.kind == "return", detail=repr(out))
    SL.check_unchanged(W, "check_mass_balance", snaps)
    if not explicit and (S.flow_list or S.stock_list):
        # history: the values of the same system object change (in place), the default tolerance is asked for again:
        # it is scaled to the values the system holds *now*
        import numpy as np

        eps = float(np.finfo(float).eps)
        new_arrays = []
        for k, a in enumerate([f for f, _, _ in S.flow_list] + [st.stock for st, _ in S.stock_list]):
            shape = list(W.shape_of(a.values))
            nv = W.ndarray(f"later{k}", shape)
            if not W.symbolic:
                nv = nv * (2.0**20 if k % 2 == 0 else 2.0**-20)
            W.call(lambda: a.values.__setitem__(Ellipsis, nv))
            new_arrays.append(a.values)
        afp2 = W.call(lambda: mfa._absolute_float_precision)
        W.prove("default_tolerance.after_values_changed.can_be_formed", afp2.kind == "return", detail=repr(afp2))
        if afp2.kind == "return":
            if W.symbolic:
                for k, a in enumerate(new_arrays):
                    idx = tuple(W.fresh_int(f"dom2_{k}_{j}", 0, s_) for j, s_ in enumerate(W.shape_of(a)))
                    if isinstance(a, symnp.SymArr) and a.ndim > 0:
                        W.c.assume(symnp.reduction_bound_fact(symnp.sym_max(symnp.sym_abs(a)), idx), why="definition of max")
                    W.prove(f"default_tolerance.after_values_changed.dominates[{k}]", afp2.value >= eps * abs(W.elem(a, idx)), detail="the tolerance follows the values the system holds now")
            else:
                want = eps * max([float(np.max(np.abs(a))) for a in new_arrays] + [0.0])
                W.prove("default_tolerance.after_values_changed.value", W.num_eq(afp2.value, want) and abs(afp2.value - want) <= 1e-12 * want, detail=f"{afp2.value} vs {want}")


@unit(
    "system.check_flows",
    props=["C02"],
    targets=["flodym.mfa_system.MFASystem.check_flows", "flodym.mfa_system.MFASystem._absolute_float_precision", "flodym.mfa_system.MFASystem._error_or_warning"],
    skeletons=lambda tier: [{"graph": g, "exc": e} for g in ("chain_mixed_dims", "with_stock", "parallel_and_opposing", "no_stocks_scalar_flows", "no_flows", "names_contain_each_other") for e in ("none", "by_flow_name", "by_process")],
    note="raise_error=False: a warning is emitted for exactly the non-excepted flows that have an entry below -tolerance (NaN: bounded unit); excepted flows (by name, source or target) are never flagged",
)
def u_check_flows(W, sk):
    import flodym.mfa_system as ms
    import numpy as np

    S = System(W, sk["graph"], table=sk.get("table", "as_listed"))
    mfa = S.mfa
    snaps = SL.snapshot(W, S.arrays())
    msgs = []
    stubs = [(ms.logging, "warning", lambda *a, **k: msgs.append(a[0] if a else ""))]
    exc = []
    if sk["exc"] == "by_flow_name" and S.flow_list:
        exc = [S.flow_list[0][0].name]
    elif sk["exc"] == "by_process":
        exc = ["A"]
    afp = W.call(lambda: mfa._absolute_float_precision)
    if afp.kind != "return":
        W.prove("check_flows.tolerance_can_be_formed", False, detail=repr(afp))
        return
    tol = 100 * afp.value
    anyterm = {}
    if W.symbolic:
        for fl, a, b in S.flow_list:
            if isinstance(fl.values, symnp.SymArr) and fl.values.ndim > 0:
                anyterm[fl.name] = symnp.sym_any(fl.values < -tol)
    exc0 = list(exc)
    flows0, procs0 = list(mfa.flows.keys()), list(mfa.processes.keys())
    # (the verbose listing of the offending labels is exercised on concrete systems only: it builds text)
    verbose = (not W.symbolic) and W.rng.random() < 0.5
    out = W.call(lambda: mfa.check_flows(exceptions=exc, raise_error=False, verbose=verbose), stubs=stubs)
    W.prove("check_flows.returns", out.kind == "return", detail=repr(out))
    if verbose:
        import numpy as _np

        for fl, a, b in S.flow_list:
            if fl.name in exc or a in exc or b in exc:
                continue
            mine = [str(m) for m in msgs if fl.name in str(m) and "Negative" in str(m)]
            neg = [idx for idx in _np.ndindex(*fl.values.shape) if fl.values[idx] < -tol] if fl.values.ndim else []
            if mine and neg:
                listed = all(", ".join(str(d.items[i]) for d, i in zip(fl.dims.dim_list, idx)) in mine[0] for idx in neg)
                W.prove(f"check_flows[{fl.name}].verbose_lists_the_labels_of_every_offending_entry", listed and mine[0].count("\n  ") == len(neg), detail=mine[0][:300])
    W.prove("check_flows.exceptions_list_unchanged", exc == exc0, kind="frame", detail=str(exc))
    W.prove("check_flows.system_tables_unchanged", list(mfa.flows.keys()) == flows0 and list(mfa.processes.keys()) == procs0, kind="frame")
    for fl, a, b in S.flow_list:
        excepted = fl.name in exc or a in exc or b in exc
        flagged = any(fl.name in str(m) and "Negative" in str(m) for m in msgs)
        nanflag = any(fl.name in str(m) and "NaN" in str(m) for m in msgs)
        W.prove(f"check_flows[{fl.name}].no_nan_report_for_real_values", not nanflag)
        if excepted:
            W.prove(f"check_flows[{fl.name}].excepted_flow_not_flagged", not flagged)
            continue
        L = SL.lab(W, fl)
        if W.symbolic:
            if flagged:
                if fl.name in anyterm:
                    nm = str(core.unwrap(anyterm[fl.name]).decl().name())
                    w = tuple(wrap(z3.Int(f"w_{nm}_{j}")) for j in range(len(L.letters)))
                else:
                    w = ()
                W.prove(f"check_flows[{fl.name}].flagged_implies_entry_below_minus_tolerance", L.at(dict(zip(L.letters, w))) < -tol)
            else:
                idx = tuple(W.fresh_int(f"cf_{j}", 0, s) for j, s in enumerate(L.sizes()))
                if fl.name in anyterm:
                    W.c.assume(symnp.reduction_bound_fact(anyterm[fl.name], idx), why="definition of any")
                W.prove(f"check_flows[{fl.name}].not_flagged_implies_no_entry_below_minus_tolerance", L.at(dict(zip(L.letters, idx))) >= -tol)
        else:
            neg = bool(np.any(fl.values < -tol))
            W.prove(f"check_flows[{fl.name}].flagged_iff_entry_below_minus_tolerance", flagged == neg)
    SL.check_unchanged(W, "check_flows", snaps)


@unit(
    "system.nan_is_never_success.bounded",
    props=["C02"],
    targets=["flodym.mfa_system.MFASystem.check_mass_balance", "flodym.mfa_system.MFASystem.check_flows"],
    skeletons=lambda tier: [{"graph": g, "tol": t} for g in ("chain", "with_stock", "chain_mixed_dims") for t in ("explicit", "default")],
    mode="bounded",
    note="NaN is outside the real-number value model of the proofs: a NaN written into one flow entry must make check_mass_balance raise / warn (never 'success'), and check_flows must flag that flow (bounded: concrete systems only)",
)
def u_nan(W, sk):
    import numpy as np
    import flodym.mfa_system as ms

    S = System(W, sk["graph"], table=sk.get("table", "as_listed"))
    fl = S.flow_list[W.rng.randrange(len(S.flow_list))][0]
    idx = tuple(W.rng.randrange(s) for s in fl.values.shape)
    fl.values[idx] = np.nan
    tol = 1e-3 if sk["tol"] == "explicit" else None
    out = W.call(lambda: S.mfa.check_mass_balance(tolerance=tol, raise_error=True))
    SL.check_raises(W, "check_mass_balance.nan_balance_is_not_success", out, ValueError)
    msgs = []
    out = W.call(lambda: S.mfa.check_flows(raise_error=False), stubs=[(ms.logging, "warning", lambda *a, **k: msgs.append(a[0] if a else ""))])
    W.prove("check_flows.nan_flow_is_flagged", out.kind == "return" and any(fl.name in str(m) and "NaN" in str(m) for m in msgs), detail=repr(out))


@unit(
    "system.mustfail_balance_ignores_stock",
    props=["C02"],
    targets=["flodym.mfa_system.MFASystem._get_mass_balance"],
    skeletons=lambda tier: [{"graph": "with_stock"}],
    expect="refuted",
)
def u_mustfail_system(W, sk):
    from fvc.harness import Outcome

    S = System(W, sk["graph"], table=sk.get("table", "as_listed"))
    out = W.call(lambda: S.mfa._get_mass_balance())
    W.prove("mf.returns", out.kind == "return")
    if out.kind != "return":
        return
    S.stock_list = []  # wrong specification: stocks do not count
    SL.check_same_array(W, "mf.balance[A](wrong: without the stock change)", Outcome("return", out.value["A"]), S.balance_spec("A"), require_fresh=False)


@unit(
    "system.get_new_array",
    props=["C13", "C15"],
    targets=["flodym.mfa_system.MFASystem.get_new_array", "flodym.dimensions.DimensionSet.get_subset"],
    skeletons=lambda tier: [{"graph": "chain", "letters": l} for l in (None, "t", "te", "et", "r", "ter", "rte", "x")],
    note="a new array over a selection of the system's dimensions (in the requested order; all of them by default): well-formed, all zeros, own dimension set; an unknown letter is refused; the system's dimension set is unchanged",
)
def u_get_new_array(W, sk):
    S = System(W, sk["graph"])
    mfa = S.mfa
    dl = list(mfa.dims.dim_list)
    letters = sk["letters"]
    out = W.call(lambda: mfa.get_new_array(tuple(letters) if letters is not None else None))
    if letters == "x":
        SL.check_raises(W, "get_new_array(unknown letter)", out, KeyError)
    else:
        want = [S.D[l] for l in (letters if letters is not None else "ter")]
        exp = SL.const(W, want, 0)
        SL.check_same_array(W, "get_new_array", out, exp)
        if out.kind == "return":
            W.prove("get_new_array.own_dimension_set", out.value.dims is not mfa.dims and out.value.dims.dim_list is not mfa.dims.dim_list, kind="ownership")
    W.prove("get_new_array.system_dims_unchanged", len(mfa.dims.dim_list) == len(dl) and all(a is b for a, b in zip(mfa.dims.dim_list, dl)), kind="frame")
