"""The lemma library as a verification unit: every property whose obligations use finite sums lists it."""
from fvc.units import unit
from fvc import core


@unit(
    "lemmas.finite_sums",
    props=["C01", "C02", "C03", "C04", "C05", "C07", "C08", "C09", "C10", "C16"],
    targets=[],
    skeletons=lambda tier: [{}],
    note="SUM-EXT, SUM-ZERO, SUM-NONNEG, SUM-DELTA, SUM-LIN, SUM-CONST, SUM-SPLIT, SUM-UNFOLD, SUM-COMM, TELESCOPE proved by induction (base + step) over the recursive definition of a finite sum of an uninterpreted function",
)
def u_lemmas(W, sk):
    if not W.symbolic:
        return
    from fvc import lemmas

    for r in lemmas.prove_all():
        W.c.obligations.append(core.Obligation("lemma." + r["name"], r["status"], None, "induction obligation of the lemma library", r["solver_s"], "-", "lemma", "z3"))
