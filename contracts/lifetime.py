"""Contracts for flodym/lifetime_models.py and gauss_lobatto.py (C08, C17, parts of C03/C16).

* UnevenTimeDim: bounds / interval lengths for a symbolic number of strictly increasing items.
* LifetimeModel.compute_survival_factor / compute_outflow_pdf: loop invariants over a symbolic number of
  cohorts; the quadrature loop runs over the concrete rule of the skeleton (inflow_at x n_pts 1..10).
* scipy.stats.<dist>.sf is a contract stub: the named distribution's survival function, an uninterpreted
  function of (age, parameters) with values in [0,1], non-increasing in age, applied element-wise.
* gauss_lobatto tables: exact rational obligations (Legendre polynomials over Fractions).
"""
from __future__ import annotations

import ast
import fractions
import itertools
import os
import z3

from fvc import core, symnp, speclib as SL, world
from fvc.units import unit
from fvc.core import to_int, to_real, wrap

EXTRA = "rg"
Fr = fractions.Fraction

# ----------------------------------------------------------------------------------------
# UnevenTimeDim


@unit(
    "time.bounds_and_interval_lengths",
    props=["C03", "C08", "C16"],
    targets=["flodym.lifetime_models.UnevenTimeDim.compute_t_bounds", "flodym.lifetime_models.UnevenTimeDim.bounds", "flodym.lifetime_models.UnevenTimeDim.interval_lengths"],
    skeletons=lambda tier: [{}],
    note="time items: a symbolic number n >= 3 of strictly increasing reals; bounds at the midpoints, first and last interval mirroring their neighbour; interval lengths positive; shifting all items by a constant shifts the bounds and leaves the interval lengths unchanged",
)
def u_time(W, sk):
    from flodym.lifetime_models import UnevenTimeDim
    from flodym.dimensions import Dimension

    if W.symbolic:
        n = core.sym_int("n_t", 3)
        items = world.SymNumList("t", n)
        y = lambda k: wrap(items.fn(to_int(k)))
        dim = Dimension.model_construct(name="Time", letter="t", items=items, dtype=None)
        T = UnevenTimeDim.model_construct(dim=dim)
        shift = W.number("shift")
        items2 = world.SymNumList("t_shifted", n, fn=lambda j: items.fn(j) + shift.e)
        T2 = UnevenTimeDim.model_construct(dim=Dimension.model_construct(name="Time", letter="t", items=items2, dtype=None))
    else:
        n = W.rng.choice([3, 4, 5, 7])
        if W.rng.random() < 0.4:
            # sub-annual grid: months as decimal years rounded to two digits (slightly uneven), near year 0
            n = W.rng.choice([6, 9, 13])
            its = [round(k / 12.0, 2) for k in range(n)]
            shift = float(W.rng.choice([2020, 1950, 100]))
        else:
            its, yv = [], 1990
            for k in range(n):
                its.append(yv)
                yv += W.rng.choice([1, 2, 5, 13])
            shift = float(W.rng.choice([-7, 3, 100]))
            if W.rng.random() < 0.5:
                its = SL.span_trap_grid(W.rng, n, 1990)
                n = len(its)
        y = lambda k: float(its[int(k)])
        T = UnevenTimeDim(dim=Dimension(name="Time", letter="t", items=its))
        T2 = UnevenTimeDim(dim=Dimension(name="Time", letter="t", items=[v + shift for v in its]))
        W.inputs["time_items"] = its
    out = W.call(lambda: T.bounds)
    W.prove("bounds.returns", out.kind == "return", detail=repr(out))
    if out.kind != "return":
        return
    b = out.value
    ok = W.is_ndarray(b) and len(W.shape_of(b)) == 1
    W.prove("bounds.is_vector", ok)
    if not ok:
        return
    W.prove("bounds.length", W.size_eq(W.shape_of(b)[0], n + 1))
    B = lambda k: W.elem(b, (k,))
    mid = lambda k: (y(k - 1) + y(k)) / 2
    W.forall_range("bounds.midpoints", [(1, n)], lambda idx: W.num_eq(B(idx[0]), mid(idx[0])), detail="b[k] = (item[k-1] + item[k]) / 2 for 1 <= k <= n-1")
    W.prove("bounds.first_mirrors_neighbour", W.num_eq(B(0), mid(1) - (mid(2) - mid(1))))
    W.prove("bounds.last_mirrors_neighbour", W.num_eq(B(n), mid(n - 1) + (mid(n - 1) - mid(n - 2))))
    out2 = W.call(lambda: T.interval_lengths)
    W.prove("interval_lengths.returns", out2.kind == "return", detail=repr(out2))
    if out2.kind != "return":
        return
    d = out2.value
    W.prove("interval_lengths.length", W.is_ndarray(d) and len(W.shape_of(d)) == 1 and bool(W.size_eq(W.shape_of(d)[0], n)))
    D = lambda k: W.elem(d, (k,))
    W.forall_range("interval_lengths.are_bound_differences", [(0, n)], lambda idx: W.num_eq(D(idx[0]), B(idx[0] + 1) - B(idx[0])))
    W.forall_range("interval_lengths.positive", [(0, n)], lambda idx: D(idx[0]) > 0)
    W.forall_range("bounds.strictly_increasing", [(0, n)], lambda idx: B(idx[0] + 1) > B(idx[0]))
    again = W.call(lambda: T.bounds)
    W.prove("bounds.cached_value_is_reused", again.kind == "return" and again.value is b)
    # calendar shift
    o3 = W.call(lambda: (T2.bounds, T2.interval_lengths))
    W.prove("shift.returns", o3.kind == "return", detail=repr(o3))
    if o3.kind == "return":
        b2, d2 = o3.value
        W.forall_range("shift.bounds_shifted", [(0, n + 1)], lambda idx: W.num_eq(W.elem(b2, (idx[0],)), B(idx[0]) + shift))
        W.forall_range("shift.interval_lengths_unchanged", [(0, n)], lambda idx: W.num_eq(W.elem(d2, (idx[0],)), D(idx[0])))


# ----------------------------------------------------------------------------------------
# quadrature tables: exact obligations


def _read_tables():
    import flodym.gauss_lobatto as gl

    src = open(gl.__file__).read()
    tree = ast.parse(src)
    out = {}
    for node in tree.body:
        if isinstance(node, ast.Assign) and isinstance(node.targets[0], ast.Name) and node.targets[0].id in ("gl_nodes", "gl_weights"):
            d = {}
            for k, v in zip(node.value.keys, node.value.values):
                vals = []
                for e in v.elts:
                    txt = ast.get_source_segment(src, e)
                    vals.append(Fr(txt.strip()))
                d[ast.literal_eval(k)] = vals
            out[node.targets[0].id] = d
    return out["gl_nodes"], out["gl_weights"]


def _legendre(n, x):
    """(P_n(x), P_n'(x), P_n''(x)) exactly"""
    p0, p1 = Fr(1), x
    if n == 0:
        return p0, Fr(0), Fr(0)
    for k in range(2, n + 1):
        p0, p1 = p1, ((2 * k - 1) * x * p1 - (k - 1) * p0) / k
    pn, pn1 = p1, p0
    if x * x == 1:
        d = Fr(n * (n + 1), 2) * (x ** (n + 1) if n % 2 == 0 else 1) * (1 if x == 1 else (-1) ** (n + 1))
        return pn, d, None
    d = n * (x * pn - pn1) / (x * x - 1)
    d2 = (2 * x * d - n * (n + 1) * pn) / (1 - x * x)
    return pn, d, d2


@unit(
    "quadrature.gauss_lobatto_tables",
    props=["C08"],
    targets=["flodym.lifetime_models.LifetimeModel.get_quad_points_and_weights"],
    skeletons=lambda tier: [{"n": n} for n in range(1, 11)],
    note="the constants of gauss_lobatto.py are read from the source as exact decimal rationals and checked against the defining equations of the n-point Gauss-Lobatto rule (tolerance 1e-13 on node position via one Newton step, 1e-13 on weights); then the mapping to [0,1] done by get_quad_points_and_weights is checked",
)
def u_tables(W, sk):
    from flodym.lifetime_models import NormalLifetime
    from flodym.dimensions import Dimension, DimensionSet

    n = sk["n"]
    nodes, weights = _read_tables()
    tol = Fr(1, 10**13)
    xs, ws = nodes[n], weights[n]
    W.prove(f"gl[{n}].count", len(xs) == n and len(ws) == n)
    if n >= 2:
        W.prove(f"gl[{n}].endpoints", xs[0] == -1 and xs[-1] == 1)
        W.prove(f"gl[{n}].strictly_increasing", all(a < b for a, b in zip(xs, xs[1:])))
        W.prove(f"gl[{n}].symmetric_nodes", all(abs(a + b) <= tol for a, b in zip(xs, reversed(xs))))
        W.prove(f"gl[{n}].symmetric_weights", all(abs(a - b) <= tol for a, b in zip(ws, reversed(ws))))
        W.prove(f"gl[{n}].weights_positive", all(w > 0 for w in ws))
        W.prove(f"gl[{n}].weights_sum_to_two", abs(sum(ws) - 2) <= tol)
        for i, (x, w) in enumerate(zip(xs, ws)):
            pn, d, d2 = _legendre(n - 1, x)
            if 0 < i < n - 1:
                # interior nodes: roots of P'_{n-1}; |Newton step| bounds the distance to the root
                W.prove(f"gl[{n}].node[{i}].is_root_of_P'_{n-1}", d2 != 0 and abs(d / d2) <= tol, detail=f"Newton step {float(d / d2) if d2 else 'inf'}")
            W.prove(f"gl[{n}].weight[{i}]", abs(w - Fr(2, n * (n - 1)) / (pn * pn)) <= tol, detail="w_i = 2 / (n (n-1) P_{n-1}(x_i)^2)")
    else:
        W.prove("gl[1].midpoint_rule", xs == [0] and ws == [2])
    # mapping to the unit interval as used by the lifetime models
    T = Dimension(name="Time", letter="t", items=[2000, 2001, 2002])
    ds = DimensionSet(dim_list=[T])
    cases = [("middle", n)] if n > 1 else [("start", 1), ("middle", 1), ("end", 1)]
    for inflow_at, npts in cases:
        lm = NormalLifetime(dims=ds, time_letter="t", inflow_at=inflow_at, n_pts_per_interval=npts, mean=3.0, std=1.0)
        eta, wq = lm.get_quad_points_and_weights()
        if npts > 1:
            W.prove(f"quad[{npts}].nodes_mapped_to_unit_interval", len(eta) == npts and all(abs(Fr(e) - (x + 1) / 2) <= tol for e, x in zip(eta, xs)))
            W.prove(f"quad[{npts}].weights_halved", len(wq) == npts and all(abs(Fr(a) - w / 2) <= tol for a, w in zip(wq, ws)))
            W.prove(f"quad[{npts}].convex", all(0 <= e <= 1 for e in eta) and all(a >= 0 for a in wq) and abs(sum(Fr(a) for a in wq) - 1) <= tol)
        else:
            W.prove(f"quad[{inflow_at}].single_point", list(eta) == [{"start": 0, "middle": 0.5, "end": 1}[inflow_at]] and list(wq) == [1])
    lm = NormalLifetime(dims=ds, time_letter="t", n_pts_per_interval=11, mean=3.0, std=1.0)
    out = W.call(lambda: lm.get_quad_points_and_weights())
    SL.check_raises(W, "quad[11].refused", out, ValueError)


# ----------------------------------------------------------------------------------------
# lifetime models: survival and outflow-probability tables

DISTS = ["Fixed", "Normal", "FoldedNormal", "LogNormal", "Weibull"]
_SF_UF = {}


def sf_uf(name, nargs):
    key = (name, nargs)
    if key not in _SF_UF:
        _SF_UF[key] = z3.Function(name, *([z3.RealSort()] * nargs), z3.RealSort())
    return _SF_UF[key]


_OPAQUE = ("ln", "sqrt", "exp", "pow")


def abstract_parameter(e):
    """A distribution parameter computed from the model's parameters by a non-linear formula (log-normal:
    sigma, exp(mu); folded normal: mean/std) is only ever compared for *equality*; it is handed to the solver
    as an uninterpreted function of the parameter reads it is built from (same formula => same function), so
    that the solver is not asked to do non-linear arithmetic inside the arguments of uninterpreted functions."""
    import hashlib

    e = z3.simplify(to_real(e))
    if z3.is_rational_value(e) or z3.is_const(e):
        return e
    if z3.is_app(e) and e.decl().kind() == z3.Z3_OP_UNINTERPRETED and e.decl().name() not in _OPAQUE:
        return e

    def nonlinear(t):
        if z3.is_app(t):
            k = t.decl().kind()
            if k == z3.Z3_OP_UNINTERPRETED and t.decl().name() in _OPAQUE:
                return True
            if k in (z3.Z3_OP_MUL, z3.Z3_OP_DIV) and sum(0 if (z3.is_rational_value(c) or z3.is_int_value(c)) else 1 for c in t.children()) > 1:
                return True
            if k == z3.Z3_OP_UNINTERPRETED:
                return False
            return any(nonlinear(c) for c in t.children())
        return False

    if not nonlinear(e):
        return e  # reads, conditionals, linear terms: left to the solver
    leaves = []

    def walk(t):
        if z3.is_rational_value(t) or z3.is_int_value(t):
            return t
        if z3.is_app(t) and t.decl().kind() == z3.Z3_OP_UNINTERPRETED and t.decl().name() not in _OPAQUE:
            leaves.append(t)
            return z3.Const(f"__L{len(leaves) - 1}", t.sort())
        if z3.is_app(t) and t.num_args() > 0:
            return t.decl()(*[walk(c) for c in t.children()])
        return t

    shape = walk(core._canon(e))
    h = hashlib.sha1(shape.sexpr().encode()).hexdigest()[:10]
    f = z3.Function(f"PRM_{h}", *[l.sort() for l in leaves], z3.RealSort())
    return f(*leaves) if leaves else z3.Real(f"PRM_{h}")


def install_dist_axioms(W, name, nargs):
    """assumed property of the named distribution's survival function: values in [0,1] (trigger on every
    application).  Monotonicity in age is instantiated where it is needed (`assume_monotone`)."""
    f = sf_uf(name, nargs)
    W.c.add_trigger(name, lambda age, *prm: z3.And(f(age, *prm) >= 0, f(age, *prm) <= 1))


def assume_monotone(W, M, t_hi, t_lo, c, r):
    """assumed property of the named distribution's survival function: non-increasing in age -- instantiated for
    the quadrature points of cohort c at the two years t_lo <= t_hi (same parameters, larger age at t_hi)"""
    if not W.symbolic or M.dist == "Fixed":
        return
    prm = M.prm_at(c, r)
    for eta in M.eta:
        inst = eta * M.b(c + 1) + (1 - eta) * M.b(c)
        a_hi, a_lo = M.b(t_hi + 1) - inst, M.b(t_lo + 1) - inst
        v_hi, v_lo = dist_spec(W, M.dist, a_hi, prm), dist_spec(W, M.dist, a_lo, prm)
        W.c.assume(z3.Implies(to_real(a_lo) <= to_real(a_hi), to_real(v_hi) <= to_real(v_lo)), why=f"{M.dist}: survival function is non-increasing in age")


class ScipyStub:
    """contract stub installed as the name `scipy` in flodym.lifetime_models"""

    def __init__(self, W):
        self.W = W
        self.stats = self
        self.norm = _Dist(W, "NormSF", ["loc", "scale"])
        self.foldnorm = _Dist(W, "FoldNormSF", ["c", "loc", "scale"], positional=["c", "loc"])
        self.lognorm = _Dist(W, "LogNormSF", ["s", "loc", "scale"], positional=["s"])
        self.weibull_min = _Dist(W, "WeibullSF", ["c", "loc", "scale"], positional=["c"])


class _Dist:
    def __init__(self, W, name, params, positional=()):
        self.W, self.name, self.params, self.positional = W, name, params, list(positional)

    def sf(self, x, *args, **kw):
        # scipy: sf(x, <shape parameters>, loc=0, scale=1) -- positional arguments fill the parameters in that order
        if len(args) > len(self.params):
            raise TypeError(f"{self.name}: too many positional arguments")
        vals = dict(zip(self.params, args))
        for k_, v_ in kw.items():
            if k_ in vals:
                raise TypeError(f"{self.name}: got multiple values for argument '{k_}'")
            vals[k_] = v_
        if set(vals) - set(self.params):
            raise core.Unsupported(f"{self.name}: unexpected parameters {sorted(vals)}")
        ps = [vals.get(p, 0 if p == "loc" else 1) for p in self.params]
        f = sf_uf(self.name, 1 + len(ps))
        arrs = [symnp.as_symarr(x)] + [symnp.as_symarr(p) for p in ps]
        shape = symnp.broadcast_shapes(*[a.shape for a in arrs])
        rds = [symnp._bcast_reader(a, shape) for a in arrs]
        kinds = [a.kind for a in arrs]
        def fn(idx):
            vals = [to_real(symnp._cast_expr(r(idx), k, "real")) for r, k in zip(rds, kinds)]
            return f(vals[0], *[abstract_parameter(v) for v in vals[1:]])

        return symnp.SymArr.fresh(shape, fn, "real")


def dist_spec(W, dist, age, prm):
    """survival function of the *named* distribution at `age` with the model's parameters (symbolic world)"""
    one = z3.RealVal(1)
    if dist == "Fixed":
        return wrap(z3.If(to_real(age) < to_real(prm["mean"]), one, z3.RealVal(0)))
    if dist == "Normal":
        return wrap(sf_uf("NormSF", 3)(to_real(age), to_real(prm["mean"]), to_real(prm["std"])))
    if dist == "FoldedNormal":
        return wrap(sf_uf("FoldNormSF", 4)(to_real(age), abstract_parameter(to_real(prm["mean"]) / to_real(prm["std"])), z3.RealVal(0), to_real(prm["std"])))
    if dist == "LogNormal":
        m, s = to_real(prm["mean"]), to_real(prm["std"])
        sigma = symnp.SQRT(symnp.LOG(1 + (s * s) / (m * m)))
        mu = symnp.LOG((m * m) / symnp.SQRT(m * m + s * s))
        return wrap(sf_uf("LogNormSF", 4)(to_real(age), abstract_parameter(sigma), z3.RealVal(0), abstract_parameter(symnp.EXP(mu))))
    if dist == "Weibull":
        return wrap(sf_uf("WeibullSF", 4)(to_real(age), to_real(prm["weibull_shape"]), z3.RealVal(0), to_real(prm["weibull_scale"])))
    raise KeyError(dist)


def dist_spec_concrete(dist, age, prm):
    import math
    import scipy.stats as st

    if dist == "Fixed":
        return 1.0 if age < prm["mean"] else 0.0
    if dist == "Normal":
        return float(st.norm.sf(age, loc=prm["mean"], scale=prm["std"]))
    if dist == "FoldedNormal":
        return float(st.foldnorm.sf(age, prm["mean"] / prm["std"], 0, scale=prm["std"]))
    if dist == "LogNormal":
        m, s = prm["mean"], prm["std"]
        sigma = math.sqrt(math.log(1 + s * s / (m * m)))
        mu = math.log(m * m / math.sqrt(m * m + s * s))
        return float(st.lognorm.sf(age, s=sigma, loc=0, scale=math.exp(mu)))
    if dist == "Weibull":
        return float(st.weibull_min.sf(age, c=prm["weibull_shape"], loc=0, scale=prm["weibull_scale"]))
    raise KeyError(dist)


PRMS = {"Fixed": ["mean"], "Normal": ["mean", "std"], "FoldedNormal": ["mean", "std"], "LogNormal": ["mean", "std"], "Weibull": ["weibull_shape", "weibull_scale"]}


def quad_rule(inflow_at, npts):
    """the documented rule on [0,1]: (eta_q, w_q)"""
    if npts == 1:
        return [{"start": 0.0, "middle": 0.5, "end": 1.0}[inflow_at]], [1.0]
    nodes, weights = _read_tables()
    # the affine map to [0,1], evaluated in double precision like every other number of the model
    # (an exact-rational evaluation differs from it by one rounding in the last place)
    return [(float(x) + 1) / 2 for x in nodes[npts]], [float(w) / 2 for w in weights[npts]]


class FakeGrid:
    def __init__(self, bounds, n):
        self.bounds = bounds
        self.dim = type("D", (), {"len": n})()


class LM:
    """a lifetime model under proof (symbolic) or a real one (concrete)"""

    def __init__(self, W, dist, n_extra, inflow_at="middle", npts=1):
        import flodym.lifetime_models as lt
        from .dimensions import mk_set

        self.W, self.dist = W, dist
        cls = {"Fixed": lt.FixedLifetime, "Normal": lt.NormalLifetime, "FoldedNormal": lt.FoldedNormalLifetime, "LogNormal": lt.LogNormalLifetime, "Weibull": lt.WeibullLifetime}[dist]
        self.cls = cls
        self.eta, self.wq = quad_rule(inflow_at, npts)
        if W.symbolic:
            T = W.dim("t", name="Time", lo=3)
            ex = [W.dim(l) for l in EXTRA[:n_extra]]
            self.dims = [T] + ex
            self.n = W.size_of(T)
            self.esizes = [W.size_of(d) for d in ex]
            n = self.n
            zn = to_int(n)
            b = W.ndarray("b", [n + 1])
            bf = z3.Function("b", z3.IntSort(), z3.RealSort())
            W.c.add_trigger("b", lambda k: z3.And(z3.Implies(z3.And(k >= 0, k < zn), bf(k + 1) > bf(k)), z3.Implies(z3.And(k >= 1, k <= zn), bf(k) > bf(k - 1))))
            self.b = lambda k: wrap(bf(to_int(k)))
            prm = {}
            self.prm_arrays = {}
            for p in PRMS[dist]:
                a = W.ndarray(p, [n] + self.esizes)
                self.prm_arrays[p] = a
                pf = z3.Function(p, *([z3.IntSort()] * (1 + n_extra)), z3.RealSort())
                if p in ("mean", "std", "weibull_shape", "weibull_scale"):
                    # admissible parameters: positive
                    W.c.add_trigger(p, (lambda pf: lambda *idx: pf(*idx) > 0)(pf))
            for nm in ("NormSF", "FoldNormSF", "LogNormSF", "WeibullSF"):
                install_dist_axioms(W, nm, {"NormSF": 3, "FoldNormSF": 4, "LogNormSF": 4, "WeibullSF": 4}[nm])
            lm = cls.model_construct(dims=mk_set(W, self.dims), time_letter="t", inflow_at=inflow_at, n_pts_per_interval=npts, **self.prm_arrays)
            lm._t = FakeGrid(b, n)
            lm._sf = None
            lm._pdf = None
            self.lm = lm
        else:
            import numpy as np
            from flodym.dimensions import Dimension, DimensionSet

            rng = W.rng
            n = rng.choice([3, 4, 5])
            its, yv = [], 2000
            for k in range(n):
                its.append(yv)
                yv += rng.choice([1, 2, 3, 6])
            if rng.random() < 0.3:
                its = SL.span_trap_grid(rng, n, 2000)
                n = len(its)
            W.inputs["time_items"] = its
            T = Dimension(name="Time", letter="t", items=its)
            ex = [W.dim(l) for l in EXTRA[:n_extra]]
            self.dims = [T] + ex
            self.n = n
            self.esizes = [len(d.items) for d in ex]
            shape = tuple([n] + self.esizes)
            vals = {}
            for p in PRMS[dist]:
                vals[p] = np.array([1.0 + 5 * rng.random() for _ in range(int(np.prod(shape)))]).reshape(shape)
                if dist == "Fixed" and rng.random() < 0.6:
                    # lifetimes on the half-year grid: some ages equal the lifetime exactly (the boundary of the step)
                    vals[p] = np.round(vals[p] * 2) / 2
            W.inputs["prms"] = {k: v.tolist() for k, v in vals.items()}
            self.prm_arrays = vals
            lm = cls(dims=DimensionSet(dim_list=self.dims), time_letter="t", inflow_at=inflow_at, n_pts_per_interval=npts, **vals)
            self.lm = lm
            bb = np.array(lm._t.bounds)
            self.b = lambda k: float(bb[int(k)])

    def prm_at(self, c, r, prms=None):
        W = self.W
        return {p: W.elem(a, (c,) + tuple(r)) for p, a in (prms or self.prm_arrays).items()}

    def table(self, t, c, r, prms=None, rule=None):
        """specification of sf[t,c,r] (statement of C08) for the parameter arrays `prms` (default: current)"""
        W = self.W
        tot = 0
        etas, wqs = rule or (self.eta, self.wq)
        for eta, w in zip(etas, wqs):
            age = self.b(t + 1) - (eta * self.b(c + 1) + (1 - eta) * self.b(c))
            if W.symbolic:
                v = dist_spec(W, self.dist, age, self.prm_at(c, r, prms))
            else:
                v = dist_spec_concrete(self.dist, age, {k: float(x) for k, x in self.prm_at(c, r, prms).items()})
            tot = tot + w * v
        if W.symbolic:
            return core.site(t >= c, tot, 0)
        return tot if t >= c else 0.0

    def pdf_spec(self, sf, t, c, r):
        W = self.W
        if W.symbolic:
            return core.site(c > t, 0, core.site(c == t, 1 - sf(c, c, *r), sf(t - 1, c, *r) - sf(t, c, *r)))
        if c > t:
            return 0.0
        return 1 - sf(c, c, *r) if c == t else sf(t - 1, c, *r) - sf(t, c, *r)


class SurvivalLoop:
    """loop contract for  `for m in range(0, n_t)`  in compute_survival_factor:
    Inv(m): columns c < m of _sf hold the final table, columns c >= m are still zero"""

    def __init__(self, W, M):
        self.W, self.M = W, M
        self.prms = dict(M.prm_arrays)  # the loop runs with the parameters the model holds *now*
        self.rule = (list(M.eta), list(M.wq))

    def _sf(self, L):
        a = L["self"]._sf
        if not isinstance(a, symnp.SymArr):
            raise core.Unsupported("loop contract: self._sf is not a symbolic array")
        return a

    def entry(self, L, lo):
        W, M = self.W, self.M
        W.prove("sf.loop.starts_at_zero", lo == 0 if isinstance(lo, int) else W.size_eq(lo, 0), kind="invariant")
        a = self._sf(L)
        rngs = [(0, M.n), (0, M.n)] + [(0, e) for e in M.esizes]
        W.forall_range("sf.loop.invariant_on_entry", rngs, lambda idx: W.num_eq(W.elem(a, idx), 0), kind="invariant", detail="the table starts as zeros")

    def havoc(self, L):
        self.name, self.f = symnp.havoc(self._sf(L), "SFT")

    def assume_inv(self, L, m):
        W, M = self.W, self.M
        f = self.f
        zn = to_int(M.n)
        es = [to_int(e) for e in M.esizes]
        zm = to_int(m)

        def fact(t, c, *r):
            rng = [t >= 0, t < zn, c >= 0, c < zn] + [z3.And(a >= 0, a < e) for a, e in zip(r, es)]
            tw, cw, rw = wrap(t), wrap(c), tuple(wrap(a) for a in r)
            val = z3.If(c < zm, to_real(M.table(tw, cw, rw, self.prms, self.rule)), z3.RealVal(0))
            return z3.Implies(z3.And(*rng), f(t, c, *r) == val)

        W.c.add_trigger(self.name, fact)

    def preserve(self, L, m1):
        W, M = self.W, self.M
        a = self._sf(L)
        t = W.fresh_int("sf_t", 0, M.n)
        c = W.fresh_int("sf_c", 0, M.n)
        r = tuple(W.fresh_int(f"sf_r{j}", 0, e) for j, e in enumerate(M.esizes))
        val = core.site(c < m1, M.table(t, c, r, self.prms, self.rule), 0)
        W.prove("sf.loop.invariant_preserved", W.num_eq(W.elem(a, (t, c) + r), val), kind="invariant", detail="column m now holds the quadrature average of the distribution's survival function; other columns untouched")


class PdfLoop:
    """loop contract for `for m in range(0, n_t)` in compute_outflow_pdf:
    Inv(m): diagonal set to 1 - sf[c,c]; columns c < m filled below the diagonal with sf[t-1,c] - sf[t,c];
    everything else still zero"""

    def __init__(self, W, M, sf):
        self.W, self.M, self.sf = W, M, sf

    def _pdf(self, L):
        a = L["self"]._pdf
        if not isinstance(a, symnp.SymArr):
            raise core.Unsupported("loop contract: self._pdf is not a symbolic array")
        return a

    def _val(self, t, c, r, m):
        sf = self.sf
        return core.site(c > t, 0, core.site(c == t, 1 - sf(c, c, *r), core.site(c < m, sf(t - 1, c, *r) - sf(t, c, *r), 0)))

    def entry(self, L, lo):
        W, M = self.W, self.M
        a = self._pdf(L)
        t = W.fresh_int("pe_t", 0, M.n)
        c = W.fresh_int("pe_c", 0, M.n)
        r = tuple(W.fresh_int(f"pe_r{j}", 0, e) for j, e in enumerate(M.esizes))
        W.prove("pdf.loop.invariant_on_entry", W.num_eq(W.elem(a, (t, c) + r), self._val(t, c, r, 0)), kind="invariant", detail="diagonal = 1 - sf[c,c], zero elsewhere")

    def havoc(self, L):
        self.name, self.f = symnp.havoc(self._pdf(L), "PDFT")

    def assume_inv(self, L, m):
        W, M = self.W, self.M
        f = self.f
        zn = to_int(M.n)
        es = [to_int(e) for e in M.esizes]

        def fact(t, c, *r):
            rng = [t >= 0, t < zn, c >= 0, c < zn] + [z3.And(a >= 0, a < e) for a, e in zip(r, es)]
            return z3.Implies(z3.And(*rng), f(t, c, *r) == to_real(self._val(wrap(t), wrap(c), tuple(wrap(a) for a in r), m)))

        W.c.add_trigger(self.name, fact)

    def preserve(self, L, m1):
        W, M = self.W, self.M
        a = self._pdf(L)
        t = W.fresh_int("pp_t", 0, M.n)
        c = W.fresh_int("pp_c", 0, M.n)
        r = tuple(W.fresh_int(f"pp_r{j}", 0, e) for j, e in enumerate(M.esizes))
        W.prove("pdf.loop.invariant_preserved", W.num_eq(W.elem(a, (t, c) + r), self._val(t, c, r, m1)), kind="invariant")


def sk_tables(tier):
    out = []
    # inflow_at is documented to be ignored for n > 1: the n-point rules are checked under every setting of it
    rules = [("middle", 1), ("start", 1), ("end", 1), ("middle", 2), ("middle", 3), ("start", 2), ("end", 2), ("end", 3)]
    if tier == "thorough":
        rules += [("middle", k) for k in range(4, 11)] + [("start", 3), ("start", 5), ("end", 4), ("end", 7)]
    for d in DISTS:
        for e in (0, 1):
            for inflow_at, npts in rules:
                if tier == "quick" and e == 1 and npts > 2:
                    continue
                out.append({"dist": d, "extra": e, "inflow_at": inflow_at, "npts": npts})
    # two non-time dimensions (index gymnastics of _tile / diagonal / moveaxis)
    for d in DISTS if tier == "thorough" else ("Normal", "Fixed"):
        out.append({"dist": d, "extra": 2, "inflow_at": "middle", "npts": 1})
    return out


LT_TARGETS = [
    "flodym.lifetime_models.LifetimeModel.sf",
    "flodym.lifetime_models.LifetimeModel.pdf",
    "flodym.lifetime_models.LifetimeModel.compute_survival_factor",
    "flodym.lifetime_models.LifetimeModel.compute_outflow_pdf",
    "flodym.lifetime_models.LifetimeModel._remaining_ages",
    "flodym.lifetime_models.LifetimeModel._tile",
    "flodym.lifetime_models.LifetimeModel.get_quad_points_and_weights",
    "flodym.lifetime_models.LifetimeModel._check_prms_set",
    "flodym.lifetime_models.LifetimeModel._n_t",
    "flodym.lifetime_models.LifetimeModel._shape_cohort",
    "flodym.lifetime_models.LifetimeModel._shape_no_t",
    "flodym.lifetime_models.FixedLifetime._survival_by_year_id",
    "flodym.lifetime_models.NormalLifetime._survival_by_year_id",
    "flodym.lifetime_models.FoldedNormalLifetime._survival_by_year_id",
    "flodym.lifetime_models.LogNormalLifetime._survival_by_year_id",
    "flodym.lifetime_models.WeibullLifetime._survival_by_year_id",
]


def lm_stubs(W):
    import flodym.lifetime_models as lt

    return [(lt, "scipy", ScipyStub(W))] if W.symbolic else []


@unit(
    "lifetime.survival_and_pdf_tables",
    props=["C08", "C03", "C09", "C10", "C16"],
    not_clauses={p: ["sf.equals_declared_distribution"] for p in ("C03", "C09", "C10", "C16")},
    targets=LT_TARGETS,
    skeletons=sk_tables,
    stubs=["scipy.stats.norm.sf", "scipy.stats.foldnorm.sf", "scipy.stats.lognorm.sf", "scipy.stats.weibull_min.sf", "flodym.lifetime_models.UnevenTimeDim.bounds"],
    note="symbolic number of cohorts (loop invariants), symbolic strictly increasing bounds, per-cohort per-label positive parameters; quadrature rule concrete per skeleton; the range clause is sf <= sum of the weights (the weights sum to 1 within 1e-13, see quadrature unit)",
)
def u_lifetime_tables(W, sk):
    M = LM(W, sk["dist"], sk["extra"], sk["inflow_at"], sk["npts"])
    lm = M.lm
    n = M.n
    if W.symbolic:
        W.c.loop_contracts.append(SurvivalLoop(W, M))
    out = W.call(lambda: lm.sf, stubs=lm_stubs(W))
    W.prove("sf.returns", out.kind == "return", detail=repr(out))
    if out.kind != "return":
        return
    sfa = out.value
    W.prove("sf.is_cached", sfa is lm._sf)
    if W.symbolic and isinstance(sfa, symnp.SymArr):
        _sffz = sfa.frozen()
    shp = W.shape_of(sfa) if W.is_ndarray(sfa) else None
    ok = shp is not None and len(shp) == 2 + len(M.esizes)
    W.prove("sf.rank", ok)
    if not ok:
        return
    for j, want in enumerate([n, n] + M.esizes):
        W.prove(f"sf.shape[{j}]", W.size_eq(shp[j], want))
    sf = (lambda t, c, *r: wrap(_sffz((t, c) + tuple(r)))) if (W.symbolic and isinstance(sfa, symnp.SymArr)) else (lambda t, c, *r: W.elem(sfa, (t, c) + tuple(r)))
    rngs = [(0, n), (0, n)] + [(0, e) for e in M.esizes]
    W.forall_range("sf.equals_declared_distribution", rngs, lambda idx: W.num_eq(sf(*idx), M.table(idx[0], idx[1], idx[2:])), detail="sf[t,c] = quadrature average over the cohort's interval of the named distribution's survival function at the age reached at the end of year t, with the cohort's own parameters")
    W.forall_range("sf.zero_for_later_cohorts", rngs, lambda idx: W.implies(idx[1] > idx[0], W.num_eq(sf(*idx), 0)))
    wsum = sum(M.wq)
    if W.symbolic:
        W.forall_range("sf.in_unit_interval", rngs, lambda idx: core.sand(sf(*idx) >= 0, sf(*idx) <= sum(Fr(w) for w in M.wq)))
        mc = W.fresh_int("mono_c", 0, n)
        mt = W.fresh_int("mono_t", mc, n - 1)
        mr = tuple(W.fresh_int(f"mono_r{j}", 0, e) for j, e in enumerate(M.esizes))
        assume_monotone(W, M, mt + 1, mt, mc, mr)
        W.prove("sf.never_increases_with_age", sf(mt + 1, mc, *mr) <= sf(mt, mc, *mr), detail="sf[t+1,c] <= sf[t,c] for t >= c")
    else:
        W.forall_range("sf.in_unit_interval", rngs, lambda idx: -1e-12 <= sf(*idx) <= 1 + 1e-9)
        W.forall_range("sf.never_increases_with_age", rngs, lambda idx: (not (idx[0] >= idx[1] and idx[0] + 1 < n)) or sf(idx[0] + 1, idx[1], *idx[2:]) <= sf(idx[0], idx[1], *idx[2:]) + 1e-12)
    # outflow probabilities
    if W.symbolic:
        W.c.loop_contracts.append(PdfLoop(W, M, sf))
    out2 = W.call(lambda: lm.pdf, stubs=lm_stubs(W))
    W.prove("pdf.returns", out2.kind == "return", detail=repr(out2))
    if out2.kind != "return":
        return
    pa = out2.value
    pdf = lambda t, c, *r: W.elem(pa, (t, c) + tuple(r))
    W.forall_range("pdf.is_difference_of_survival", rngs, lambda idx: W.num_eq(pdf(*idx), M.pdf_spec(sf, idx[0], idx[1], idx[2:])), detail="pdf[c,c] = 1 - sf[c,c]; pdf[t,c] = sf[t-1,c] - sf[t,c] (t > c); 0 for c > t")
    if W.symbolic:
        pc = W.fresh_int("pn_c", 0, n)
        pt = W.fresh_int("pn_t", 0, n)
        pr_ = tuple(W.fresh_int(f"pn_r{j}", 0, e) for j, e in enumerate(M.esizes))
        if bool(pt > pc):
            assume_monotone(W, M, pt, pt - 1, pc, pr_)
        excess = sum(Fr(w) for w in M.wq) - 1  # exact; 0 for the exact rule, at most 1e-13 for the double constants
        W.prove("pdf.non_negative", pdf(pt, pc, *pr_) >= (-excess if excess > 0 else 0), detail="pdf >= 0 (up to the rounding excess of the weights' sum over 1)")
        c = W.fresh_int("tel_c", 0, n)
        t = W.fresh_int("tel_t", c, n)
        r = tuple(W.fresh_int(f"tel_r{j}", 0, e) for j, e in enumerate(M.esizes))
        G = lambda k: core.site(k < c, 1, sf(k, c, *r))
        W.lemma_sum_ext("pdf.telescope.as_differences", c, t + 1, lambda k: pdf(k, c, *r), lambda k: G(k - 1) - G(k))
        W.lemma_telescope("pdf.telescope", c, t + 1, G)
        W.prove("sf_plus_cumulative_pdf_is_one", W.num_eq(sf(t, c, *r) + W.sum1("k", c, t + 1, lambda k: pdf(k, c, *r)), 1), detail="survival(t,c) + sum of outflow probabilities up to t = 1")
    else:
        W.forall_range("pdf.non_negative", rngs, lambda idx: pdf(*idx) >= -1e-12)
        W.forall_range("sf_plus_cumulative_pdf_is_one", rngs, lambda idx: (idx[0] < idx[1]) or W.num_eq(sf(*idx) + sum(pdf(k, idx[1], *idx[2:]) for k in range(idx[1], idx[0] + 1)), 1.0))
    again = W.call(lambda: (lm.sf, lm.pdf), stubs=lm_stubs(W))
    W.prove("tables.cached_values_are_reused", again.kind == "return" and again.value[0] is sfa and again.value[1] is pa)


# ----------------------------------------------------------------------------------------
# parameters: scalars, arrays over any subset of the dimensions in any order (C08, C04); set_prms and the
# table caches (C17)


def sk_cast_prms(tier):
    from .dimensions import operand_pairs

    out = []
    for T, x in operand_pairs(3 if tier == "quick" else 4):
        if not T or any(l not in T for l in x):
            continue
        out.append({"T": T, "x": x})
    return out


@unit(
    "lifetime.parameter_casting",
    props=["C08", "C04", "C15", "C16"],
    only_clauses={"C16": ["*entries*"]},
    targets=["flodym.lifetime_models.LifetimeModel.cast_any_to_np_array", "flodym.lifetime_models.StandardDeviationLifetimeModel.set_prms", "flodym.lifetime_models.FixedLifetime.set_prms", "flodym.lifetime_models.WeibullLifetime.set_prms", "flodym.lifetime_models.LifetimeModel.cast_prms"],
    skeletons=sk_cast_prms,
    note="model dimensions a,b,c,.. (first one is time); the parameter is a FlodymArray over any subset in any storage order, a number, or an ndarray",
)
def u_cast_prms(W, sk):
    import flodym.lifetime_models as lt
    from .arrays import mk_dims
    from .dimensions import mk_set

    D = mk_dims(W, sk["T"])
    dims = [D[l] for l in sk["T"]]
    x = W.array("x", [D[l] for l in sk["x"]])
    X = SL.lab(W, x)
    c = W.number("c")
    snaps = SL.snapshot(W, [x])
    if W.symbolic:
        lm = lt.NormalLifetime.model_construct(dims=mk_set(W, dims), time_letter=sk["T"][0], inflow_at="middle", n_pts_per_interval=1, mean=None, std=None)
        lm._sf, lm._pdf, lm._t = None, None, None
    else:
        from flodym.dimensions import Dimension, DimensionSet

        tdim = Dimension(name=dims[0].name, letter=dims[0].letter, items=list(range(2000, 2000 + max(3, len(dims[0].items)))))
        # (time needs >= 3 numeric items for the grid; the parameter array x keeps its own time dimension object)
        if len(tdim.items) != len(dims[0].items):
            return
        D[sk["T"][0]].items[:] = tdim.items
        lm = lt.NormalLifetime(dims=DimensionSet(dim_list=dims), time_letter=sk["T"][0])
    own = [W.size_of(d) for d in dims]
    exp = SL.Lab(W, tuple(sk["T"]), {l: D[l] for l in sk["T"]}, lambda asg: X.at(asg))
    out = W.call(lambda: lm.cast_any_to_np_array(x))
    W.prove("cast(FlodymArray).returns", out.kind == "return", detail=repr(out))
    if out.kind == "return":
        SL.check_same_values(W, "cast(FlodymArray)", out.value, exp)
        W.prove("cast(FlodymArray).independent_of_source", W.buffer_id(out.value) != W.buffer_id(x.values), kind="ownership")
    out = W.call(lambda: lm.cast_any_to_np_array(c))
    W.prove("cast(number).returns", out.kind == "return", detail=repr(out))
    if out.kind == "return":
        SL.check_same_values(W, "cast(number)", out.value, SL.const(W, dims, c))
    v = W.ndarray("v", own)
    out = W.call(lambda: lm.cast_any_to_np_array(v))
    W.prove("cast(ndarray).returns", out.kind == "return", detail=repr(out))
    if out.kind == "return":
        SL.check_same_values(W, "cast(ndarray)", out.value, SL.lab_of_values(W, v, dims))
        W.prove("cast(ndarray).independent_of_source", W.buffer_id(out.value) != W.buffer_id(v), kind="ownership")
    out = W.call(lambda: lm.set_prms(mean=x, std=c))
    W.prove("set_prms.returns", out.kind == "return", detail=repr(out))
    if out.kind == "return":
        SL.check_same_values(W, "set_prms.mean", lm.mean, exp)
        SL.check_same_values(W, "set_prms.std", lm.std, SL.const(W, dims, c))
    SL.check_unchanged(W, "parameter_casting", snaps)


@unit(
    "lifetime.parameter_of_other_length_refused",
    props=["C13"],
    targets=["flodym.lifetime_models.LifetimeModel.cast_any_to_np_array", "flodym.lifetime_models.StandardDeviationLifetimeModel.set_prms"],
    skeletons=lambda tier: [sk for sk in sk_cast_prms(tier) if sk["x"]],
    note="a parameter given as a FlodymArray over a dimension that has the letter of one of the model's dimensions but another number of items must be refused (not broadcast, not stored), and the refusal leaves the parameters as they were; same length: matched by letter, not claimed either way",
)
def u_prm_other_length(W, sk):
    import flodym.lifetime_models as lt
    from .arrays import mk_dims
    from .dimensions import mk_set

    D = mk_dims(W, sk["T"])
    dims = [D[l] for l in sk["T"]]
    x = W.array("x", [D[l] for l in sk["x"]])
    c = W.number("c")
    if W.symbolic:
        lm = lt.NormalLifetime.model_construct(dims=mk_set(W, dims), time_letter=sk["T"][0], inflow_at="middle", n_pts_per_interval=1, mean=None, std=None)
        lm._sf, lm._pdf, lm._t = None, None, None
    else:
        from flodym.dimensions import Dimension, DimensionSet

        tdim = Dimension(name=dims[0].name, letter=dims[0].letter, items=list(range(2000, 2000 + max(3, len(dims[0].items)))))
        if len(tdim.items) != len(dims[0].items):
            return
        D[sk["T"][0]].items[:] = tdim.items
        lm = lt.NormalLifetime(dims=DimensionSet(dim_list=dims), time_letter=sk["T"][0])
    own = [W.size_of(d) for d in dims]
    out = W.call(lambda: lm.set_prms(mean=x, std=c))
    W.prove("set_prms.returns", out.kind == "return", detail=repr(out))
    if out.kind != "return":
        return
    # a parameter over a dimension with the letter of one of the model's dimensions but another number of items
    # must be refused (not broadcast, not stored), and the refusal leaves the parameters as they were
    if True:
        l = sk["x"][-1]
        if l == sk["T"][0] and not W.symbolic:
            return  # (the concrete time dimension needs numeric items; the twin case is run on the other letters)
        twin = W.dim(l, name=D[l].name, tag="twin_" + l)
        if W.symbolic:
            same = bool(W.size_eq(W.size_of(twin), W.size_of(D[l])))
        else:
            same = len(twin.items) == len(D[l].items)
            if same:
                twin.items.append("one more")
                same = False
        if same:
            return  # same length: matched by letter (by-letter semantics of cast_to, not claimed either way)
        y = W.array("y", [twin if m == l else D[m] for m in sk["x"]])
        mean0 = SL.lab_of_values(W, lm.mean.copy(), dims)
        out = W.call(lambda: lm.cast_any_to_np_array(y))
        W.prove("cast(FlodymArray over a same-letter dimension of another length).raises", out.kind == "raise" and isinstance(out.exc, Exception), detail=repr(out))
        out = W.call(lambda: lm.set_prms(mean=y, std=c))
        W.prove("set_prms(mean over a same-letter dimension of another length).raises", out.kind == "raise" and isinstance(out.exc, Exception), detail=repr(out))
        ok = W.is_ndarray(lm.mean) and len(lm.mean.shape) == len(own) and all(bool(W.size_eq(a, b)) for a, b in zip(lm.mean.shape, own))
        W.prove("set_prms(refused).mean_keeps_model_shape", ok, detail=f"shape {getattr(lm.mean, 'shape', None)}")
        if ok:
            SL.check_same_values(W, "set_prms(refused).mean_unchanged", lm.mean, mean0)

@unit(
    "lifetime.tables_follow_current_parameters",
    props=["C17", "C03", "C09", "C10", "C16", "C08"],
    not_clauses={p: ["after_set_prms.sf_is_table_of_current_parameters", "set_prms.*", "after_inadmissible_set_prms.*"] for p in ("C03", "C09", "C10", "C16")},
    only_clauses={"C08": ["after_set_prms.sf_is_table_of_current_parameters", "after_set_prms.pdf_is_table_of_current_parameters", "set_prms.*"]},
    targets=[
        "flodym.lifetime_models.StandardDeviationLifetimeModel.set_prms",
        "flodym.lifetime_models.FixedLifetime.set_prms",
        "flodym.lifetime_models.WeibullLifetime.set_prms",
        "flodym.lifetime_models.LifetimeModel.sf",
        "flodym.lifetime_models.LifetimeModel.pdf",
    ],
    skeletons=lambda tier: [{"dist": d, "extra": e, "read": rd, "npts": 1} for d in ("Normal", "Fixed", "Weibull") for e in (0, 1) for rd in ("sf", "pdf", "both", "none")]
    + [{"dist": d, "extra": e, "read": rd, "npts": k} for k in ((2, 3) if tier == "thorough" else (2,)) for d in ("Normal", "Weibull") for e in ((0, 1) if tier == "thorough" else (0,)) for rd in ("both", "none")]
    + [{"dist": d, "extra": e, "read": "both", "npts": 1, "via": "same_flodym_array"} for d in ("Normal", "Fixed", "Weibull") for e in (0, 1)],
    stubs=["scipy.stats.norm.sf", "scipy.stats.weibull_min.sf", "flodym.lifetime_models.UnevenTimeDim.bounds"],
    note="1-2 (thorough: 3) evaluation points per interval; ghost invariant valid(lm): each cached table is absent or equals the table of the current parameters. History: optionally read sf / pdf, then set_prms(new parameters), then read both: they must be the tables of the new parameters (what a freshly built model gives)",
)
def u_tables_follow_prms(W, sk):
    M = LM(W, sk["dist"], sk["extra"], npts=sk.get("npts", 1))
    lm = M.lm
    n = M.n
    stubs = lm_stubs(W)
    carriers = None
    if sk.get("via") == "same_flodym_array":
        # the parameters are handed over as FlodymArrays over the model's dimensions; the caller later changes these
        # very objects in place and hands them over again
        from flodym.flodym_arrays import FlodymArray
        from .dimensions import mk_set

        carriers = {}
        for p_, a_ in M.prm_arrays.items():
            vals = a_.copy() if hasattr(a_, "copy") else a_
            carriers[p_] = FlodymArray.model_construct(dims=mk_set(W, M.dims), values=vals, name=p_) if W.symbolic else FlodymArray(dims=mk_set(W, M.dims), values=vals, name=p_)
        o = W.call(lambda: lm.set_prms(**carriers), stubs=stubs)
        W.prove("history.set_prms_with_arrays_returns", o.kind == "return", detail=repr(o))
        if o.kind != "return":
            return
    if sk["read"] in ("sf", "both", "pdf"):
        if W.symbolic:
            W.c.loop_contracts.append(SurvivalLoop(W, M))
        o = W.call(lambda: lm.sf, stubs=stubs)
        W.prove("history.first_read_returns", o.kind == "return", detail=repr(o))
        if o.kind != "return":
            return
        if sk["read"] in ("pdf", "both"):
            if W.symbolic:
                old_fz = lm._sf.frozen()  # the table as it is *now* (not whatever lm._sf is bound to later)
                sf_old = lambda t, c, *r: wrap(old_fz((t, c) + tuple(r)))
                W.c.loop_contracts.append(PdfLoop(W, M, sf_old))
            o = W.call(lambda: lm.pdf, stubs=stubs)
            W.prove("history.first_pdf_read_returns", o.kind == "return", detail=repr(o))
        if sk["read"] == "pdf":
            pass
    # new parameters
    if W.symbolic:
        new = {p: W.ndarray(p + "_new", [n] + M.esizes) for p in PRMS[sk["dist"]]}
        for p in new:
            pf = z3.Function(p + "_new", *([z3.IntSort()] * (1 + sk["extra"])), z3.RealSort())
            W.c.add_trigger(p + "_new", (lambda pf: lambda *idx: pf(*idx) > 0)(pf))
    else:
        import numpy as np

        new = {p: np.array(a) * 1.7 + 0.3 for p, a in M.prm_arrays.items()}
        # on some runs only one of the parameters gets new values (the other is handed over as it is)
        names_ = list(new)
        which_ = W.rng.choice(["all", "first_only", "last_only"]) if len(names_) > 1 else "all"
        if which_ == "first_only":
            for p_ in names_[1:]:
                new[p_] = np.array(M.prm_arrays[p_], copy=True)
        elif which_ == "last_only":
            for p_ in names_[:-1]:
                new[p_] = np.array(M.prm_arrays[p_], copy=True)
        W.inputs["parameters_changed_by_set_prms"] = which_
    if carriers is not None:
        for p_ in new:
            W.call(lambda: carriers[p_].values.__setitem__(Ellipsis, new[p_]))
        o = W.call(lambda: lm.set_prms(**carriers), stubs=stubs)
    else:
        o = W.call(lambda: lm.set_prms(**new), stubs=stubs)
    W.prove("set_prms.returns", o.kind == "return", detail=repr(o))
    if o.kind != "return":
        return
    M.prm_arrays = new  # the specification now speaks about the current parameters
    for p in new:
        SL.check_same_values(W, f"set_prms.{p}", getattr(lm, p), SL.lab_of_values(W, new[p], M.dims))
    # ghost invariant: caches absent or valid.  Decide which, then read.
    rngs = [(0, n), (0, n)] + [(0, e) for e in M.esizes]
    # the loop contract is offered whether or not the code keeps a cache object: if the table is recomputed the
    # contract is consumed, if a (valid) cached table is returned it is withdrawn again
    pending = SurvivalLoop(W, M) if W.symbolic else None
    if pending is not None:
        W.c.loop_contracts.append(pending)
    o = W.call(lambda: lm.sf, stubs=stubs)
    if pending is not None and pending in W.c.loop_contracts:
        W.c.loop_contracts.remove(pending)
    W.prove("after_set_prms.sf_returns", o.kind == "return", detail=repr(o))
    if o.kind != "return":
        return
    sfa = o.value
    if W.symbolic and isinstance(sfa, symnp.SymArr):
        _fz2 = sfa.frozen()
        sf = lambda t, c, *r: wrap(_fz2((t, c) + tuple(r)))
    else:
        sf = lambda t, c, *r: W.elem(sfa, (t, c) + tuple(r))
    W.forall_range("after_set_prms.sf_is_table_of_current_parameters", rngs, lambda idx: W.num_eq(sf(*idx), M.table(idx[0], idx[1], idx[2:])), detail="the survival table read after set_prms must be the one a fresh model with these parameters computes")
    pending = PdfLoop(W, M, sf) if W.symbolic else None
    if pending is not None:
        W.c.loop_contracts.append(pending)
    o = W.call(lambda: lm.pdf, stubs=stubs)
    if pending is not None and pending in W.c.loop_contracts:
        W.c.loop_contracts.remove(pending)
    W.prove("after_set_prms.pdf_returns", o.kind == "return", detail=repr(o))
    if o.kind != "return":
        return
    pa = o.value
    W.forall_range("after_set_prms.pdf_is_table_of_current_parameters", rngs, lambda idx: W.num_eq(W.elem(pa, idx), M.pdf_spec(sf, idx[0], idx[1], idx[2:])), detail="the outflow-probability table read after set_prms must be derived from the current survival table")
    if W.symbolic:
        W.prove("history.no_loop_contract_left_over", not W.c.loop_contracts, kind="invariant")
    elif sk["dist"] in ("Normal", "Weibull"):
        # history with a call that hands over inadmissible parameters (a negative mean / shape, as a sampling loop may
        # draw them): whether set_prms refuses them or the next read does, the model must afterwards behave like a
        # freshly built model with the parameters it now holds -- never old tables next to new parameters
        import numpy as np
        from flodym.dimensions import DimensionSet

        names_ = list(PRMS[sk["dist"]])
        bad = {p_: np.array(new[p_], copy=True) for p_ in names_}
        k_ = W.rng.randrange(bad[names_[0]].size)
        bad[names_[0]].flat[k_] = -0.5 - W.rng.random()
        W.inputs["inadmissible_parameters"] = {p_: v_.tolist() for p_, v_ in bad.items()}
        W.call(lambda: lm.set_prms(**bad))
        o2 = W.call(lambda: lm.sf)
        held = {p_: np.array(getattr(lm, p_), copy=True) for p_ in names_}
        fr = W.call(lambda: M.cls(dims=DimensionSet(dim_list=M.dims), time_letter="t", inflow_at=lm.inflow_at, n_pts_per_interval=lm.n_pts_per_interval, **held))
        o3 = W.call(lambda: fr.value.sf) if fr.kind == "return" else fr
        same = o2.kind == o3.kind and (o2.kind != "return" or (np.shape(o2.value) == np.shape(o3.value) and np.allclose(o2.value, o3.value, rtol=1e-9, atol=1e-12)))
        W.prove("after_inadmissible_set_prms.read_behaves_like_a_fresh_model_with_the_held_parameters", same, detail=f"used model: {o2!r:.200}; fresh model with the held parameters: {o3!r:.200}")
        # ... and admissible parameters afterwards are followed again
        W.call(lambda: lm.set_prms(**new))
        o4 = W.call(lambda: lm.sf)
        ok4 = o4.kind == "return"
        W.prove("after_inadmissible_set_prms.then_admissible.sf_returns", ok4, detail=repr(o4)[:200])
        if ok4:
            W.forall_range("after_inadmissible_set_prms.then_admissible.sf_is_table_of_current_parameters", rngs, lambda idx: W.num_eq(W.elem(o4.value, idx), M.table(idx[0], idx[1], idx[2:])))


@unit(
    "lifetime.mustfail_inflow_at_start_claimed_for_middle",
    props=["C08", "C17"],
    targets=["flodym.lifetime_models.LifetimeModel.compute_survival_factor"],
    skeletons=lambda tier: [{"dist": "Normal", "extra": 0}],
    expect="refuted",
    stubs=["scipy.stats.norm.sf"],
)
def u_mustfail_lifetime(W, sk):
    M = LM(W, sk["dist"], sk["extra"], "middle", 1)
    if W.symbolic:
        class Loose(SurvivalLoop):
            def entry(self, L, lo):
                pass

            def preserve(self, L, m1):
                pass

        W.c.loop_contracts.append(Loose(W, M))
    o = W.call(lambda: M.lm.sf, stubs=lm_stubs(W))
    W.prove("mf.returns", o.kind == "return")
    if o.kind != "return":
        return
    M.eta = [0.0]  # wrong specification: inflow at the start of the interval
    n = M.n
    W.forall_range("mf.sf(wrong: inflow at start)", [(0, n), (0, n)], lambda idx: W.num_eq(W.elem(o.value, idx), M.table(idx[0], idx[1], ())))
