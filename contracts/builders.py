"""Contracts for building systems from definitions and files (C18): make_processes, make_empty_flows,
make_empty_stocks, definition validators, Dimension.from_np/from_df, the CSV / Excel readers,
MFASystem.from_data_reader / from_csv / from_excel.

The builders run in the symbolic world (dimension sizes symbolic, so the zero arrays are symbolic tensors);
definition lists are enumerated per skeleton (which processes / flows / stocks, which dimension subsets and
orders, which options).  Everything that goes through pandas (files) is a *bounded* run-time unit on temporary
files: never counted as proved.
"""
from __future__ import annotations

import itertools
import os
import tempfile

from fvc import core, speclib as SL
from fvc.units import unit
from fvc.harness import Outcome

SYS_LETTERS = "tegr"


def system_dims(W):
    from .dimensions import mk_set

    D = {l: (W.dim(l, name={"t": "Time", "e": "Element", "g": "Good", "r": "Region"}[l], lo=(3 if l == "t" else 1))) for l in SYS_LETTERS}
    return D, mk_set(W, [D[l] for l in SYS_LETTERS])


# ----------------------------------------------------------------------------------------
# make_processes


def sk_processes(tier):
    return [{"names": n} for n in ([], ["sysenv"], ["sysenv", "use"], ["sysenv", "use", "waste", "eol"], ["use", "sysenv"], ["use"], ["sysenv", "a b => c", "x"])]


@unit(
    "builders.make_processes",
    props=["C18"],
    targets=["flodym.processes.make_processes", "flodym.processes.Process.check_id0"],
    skeletons=sk_processes,
    note="process names distinct (precondition); the first one must be 'sysenv'",
)
def u_make_processes(W, sk):
    from flodym.processes import make_processes, Process

    names = list(sk["names"])
    out = W.call(lambda: make_processes(names))
    if names and names[0] != "sysenv":
        SL.check_raises(W, "make_processes(first is not sysenv)", out, ValueError)
        return
    W.prove("make_processes.returns", out.kind == "return", detail=repr(out))
    if out.kind != "return":
        return
    d = out.value
    W.prove("make_processes.keys_in_listed_order", isinstance(d, dict) and list(d.keys()) == names)
    W.prove("make_processes.ids_and_names", all(isinstance(p, Process) and p.name == n and p.id == i for i, (n, p) in enumerate(zip(names, d.values()))))
    W.prove("make_processes.argument_unchanged", names == list(sk["names"]))


# ----------------------------------------------------------------------------------------
# make_empty_flows

FLOW_DEFS = [
    ("sysenv", "use", "te", None),
    ("use", "waste", "et", None),
    ("use", "waste", "t", "second flow, same processes"),
    ("waste", "sysenv", "", None),
    ("use", "use", "terg", "loop => x / y"),
    ("sysenv", "waste", "grt", None),
]


def sk_flows(tier):
    out = []
    for naming in ("arrow", "no_spaces", "ids"):
        for k in (0, 1, 3, len(FLOW_DEFS)):
            out.append({"naming": naming, "n": k, "bad": None})
    out.append({"naming": "arrow", "n": 2, "bad": "unknown_source"})
    out.append({"naming": "arrow", "n": 2, "bad": "unknown_target"})
    return out


@unit(
    "builders.make_empty_flows",
    props=["C18", "C13", "C15"],
    targets=["flodym.flow_helper.make_empty_flows", "flodym.flow_naming.process_names_with_arrow", "flodym.flow_naming.process_names_no_spaces", "flodym.flow_naming.process_ids", "flodym.dimensions.DimensionSet.get_subset"],
    skeletons=sk_flows,
    note="flow names distinct (precondition of the statement)",
)
def u_make_empty_flows(W, sk):
    from flodym.flow_helper import make_empty_flows
    from flodym.flodym_arrays import Flow
    from flodym.mfa_definition import FlowDefinition
    from flodym.processes import make_processes
    import flodym.flow_naming as fn

    D, dims = system_dims(W)
    processes = make_processes(["sysenv", "use", "waste"])
    naming = {"arrow": fn.process_names_with_arrow, "no_spaces": fn.process_names_no_spaces, "ids": fn.process_ids}[sk["naming"]]
    defs = []
    for a, b, letters, override in FLOW_DEFS[: sk["n"]]:
        defs.append(FlowDefinition(from_process_name=a, to_process_name=b, dim_letters=tuple(letters), name_override=override))
    if sk["bad"] == "unknown_source":
        defs.append(FlowDefinition(from_process_name="nowhere", to_process_name="use", dim_letters=("t",)))
    elif sk["bad"] == "unknown_target":
        defs.append(FlowDefinition(from_process_name="use", to_process_name="nowhere", dim_letters=("t",)))
    dsnap = list(dims.dim_list)
    overrides = [d.name_override for d in defs]
    def_snap = [d.model_dump() for d in defs]
    out = W.call(lambda: make_empty_flows(processes=processes, flow_definitions=defs, dims=dims, naming=naming))
    W.prove("make_empty_flows.definitions_unchanged", [d.model_dump() for d in defs] == def_snap, kind="frame", detail=str([d.name_override for d in defs]))
    if sk["bad"]:
        SL.check_raises(W, "make_empty_flows(undefined process)", out, KeyError)
        return
    W.prove("make_empty_flows.returns", out.kind == "return", detail=repr(out))
    if out.kind != "return":
        return
    flows = out.value
    def names_under(kind):
        out_ = []
        for d, ov in zip(defs, overrides):
            a, b = processes[d.from_process_name], processes[d.to_process_name]
            if ov is not None:
                out_.append(ov)
            elif kind == "arrow":
                out_.append(f"{a.name} => {b.name}")
            elif kind == "no_spaces":
                out_.append(f"{a.name.replace(' ', '_')}_to_{b.name.replace(' ', '_')}")
            else:
                out_.append(f"F{a.id}_{b.id}")
        return out_

    want_names = names_under(sk["naming"])
    W.prove("make_empty_flows.one_flow_per_definition_under_its_name", isinstance(flows, dict) and list(flows.keys()) == want_names, detail=str(list(flows.keys()) if isinstance(flows, dict) else flows))
    if not (isinstance(flows, dict) and list(flows.keys()) == want_names):
        return
    for d, nm in zip(defs, want_names):
        f = flows[nm]
        W.prove(f"flow[{nm}].is_flow_between_the_named_processes", isinstance(f, Flow) and f.from_process is processes[d.from_process_name] and f.to_process is processes[d.to_process_name] and f.name == nm)
        exp = SL.const(W, [D[l] for l in d.dim_letters], 0)
        SL.check_same_array(W, f"flow[{nm}]", Outcome("return", f), exp)
        W.prove(f"flow[{nm}].own_dimension_set", f.dims is not dims and f.dims.dim_list is not dims.dim_list, kind="ownership")
    W.prove("make_empty_flows.system_dims_unchanged", len(dims.dim_list) == len(dsnap) and all(a is b for a, b in zip(dims.dim_list, dsnap)), kind="frame")
    # a second build from the same definitions under another naming function gives that function's names
    other = {"arrow": "ids", "no_spaces": "arrow", "ids": "no_spaces"}[sk["naming"]]
    naming2 = {"arrow": fn.process_names_with_arrow, "no_spaces": fn.process_names_no_spaces, "ids": fn.process_ids}[other]
    out2 = W.call(lambda: make_empty_flows(processes=processes, flow_definitions=defs, dims=dims, naming=naming2))
    W.prove("make_empty_flows.second_build_uses_its_own_naming", out2.kind == "return" and isinstance(out2.value, dict) and list(out2.value.keys()) == names_under(other), detail=str(list(out2.value.keys())) if out2.kind == "return" else repr(out2))


# ----------------------------------------------------------------------------------------
# make_empty_stocks and the definition validators


def stock_cases():
    import flodym.stocks as st
    import flodym.lifetime_models as lt

    return {
        "flow_driven": (st.SimpleFlowDrivenStock, None),
        "inflow_normal": (st.InflowDrivenDSM, lt.NormalLifetime),
        "inflow_weibull": (st.InflowDrivenDSM, lt.WeibullLifetime),
        "stock_fixed": (st.StockDrivenDSM, lt.FixedLifetime),
        "stock_lognormal": (st.StockDrivenDSM, lt.LogNormalLifetime),
    }


def sk_stocks(tier):
    out = []
    for case in ("flow_driven", "inflow_normal", "inflow_weibull", "stock_fixed", "stock_lognormal"):
        for solver in ("manual", "lapack"):
            for process in ("use", None, "nowhere"):
                for letters in ("t", "te", "tger"):
                    if tier == "quick" and letters == "tger" and process != "use":
                        continue
                    out.append({"case": case, "solver": solver, "process": process, "letters": letters})
    return out


@unit(
    "builders.make_empty_stocks",
    props=["C18", "C13", "C15"],
    targets=[
        "flodym.stock_helper.make_empty_stocks",
        "flodym.stocks.Stock.validate_stock_arrays",
        "flodym.stocks.Stock.validate_time_first_dim",
        "flodym.stocks.Stock.init_t",
        "flodym.stocks.DynamicStockModel.init_cohort_arrays",
        "flodym.stocks.DynamicStockModel.init_lifetime_model",
        "flodym.stocks.StockDrivenDSM.init_solver",
        "flodym.lifetime_models.LifetimeModel.check_inflow_at",
        "flodym.lifetime_models.LifetimeModel.cast_prms",
        "flodym.lifetime_models.LifetimeModel.init_t",
    ],
    skeletons=sk_stocks,
    note="one stock per definition: requested class, lifetime model class over the same dims, solver, time letter, process, dims in the listed order with the system's Dimension objects, zero arrays",
)
def u_make_empty_stocks(W, sk):
    from flodym.stock_helper import make_empty_stocks
    from flodym.mfa_definition import StockDefinition
    from flodym.processes import make_processes
    from flodym.stocks import StockDrivenDSM, DynamicStockModel

    D, dims = system_dims(W)
    processes = make_processes(["sysenv", "use", "waste"])
    cls, ltc = stock_cases()[sk["case"]]
    sd = StockDefinition(name="my stock", process_name=sk["process"], dim_letters=tuple(sk["letters"]), time_letter="t", subclass=cls, lifetime_model_class=ltc, solver=sk["solver"])
    sd_snap = sd.model_dump()
    out = W.call(lambda: make_empty_stocks(stock_definitions=[sd], processes=processes, dims=dims))
    W.prove("make_empty_stocks.definition_unchanged", sd.model_dump() == sd_snap, kind="frame")
    if sk["process"] == "nowhere":
        SL.check_raises(W, "make_empty_stocks(undefined process)", out, KeyError)
        return
    W.prove("make_empty_stocks.returns", out.kind == "return", detail=repr(out))
    if out.kind != "return":
        return
    stocks = out.value
    ok = isinstance(stocks, dict) and list(stocks.keys()) == ["my stock"]
    W.prove("make_empty_stocks.one_stock_per_definition_under_its_name", ok)
    if not ok:
        return
    s = stocks["my stock"]
    W.prove("stock.class", type(s) is cls)
    W.prove("stock.name_time_letter_process", s.name == "my stock" and s.time_letter == "t" and (s.process is processes[sk["process"]] if sk["process"] else s.process is None))
    want = [D[l] for l in sk["letters"]]
    W.prove("stock.dims", len(s.dims.dim_list) == len(want) and all(a is b for a, b in zip(s.dims.dim_list, want)) and s.dims.dim_list is not dims.dim_list)
    for nm in ("stock", "inflow", "outflow"):
        SL.check_same_array(W, f"stock.{nm}", Outcome("return", getattr(s, nm)), SL.const(W, want, 0))
    if ltc is not None:
        lm = s.lifetime_model
        W.prove("stock.lifetime_model", type(lm) is ltc and len(lm.dims.dim_list) == len(want) and all(a is b for a, b in zip(lm.dims.dim_list, want)) and lm.time_letter == "t")
        n = W.size_of(D["t"])
        for nm, arr in (("stock_by_cohort", s.get_stock_by_cohort()), ("outflow_by_cohort", s.get_outflow_by_cohort())):
            shp = W.shape_of(arr) if W.is_ndarray(arr) else None
            okk = shp is not None and len(shp) == 1 + len(want)
            W.prove(f"stock.{nm}.rank", okk)
            if okk:
                for j, wsize in enumerate([n] + [W.size_of(d) for d in want]):
                    W.prove(f"stock.{nm}.shape[{j}]", W.size_eq(shp[j], wsize))
    if cls is StockDrivenDSM:
        W.prove("stock.solver_is_the_defined_one", s.solver == sk["solver"], detail=f"definition says {sk['solver']}, stock has {s.solver}")


def sk_refusals(tier):
    return [{"case": c} for c in ("lifetime_missing", "lifetime_unused", "bad_solver", "undefined_dimension_flow", "undefined_dimension_stock", "undefined_dimension_parameter", "time_not_first", "time_not_first_dsm", "all_good")]


@unit(
    "builders.definition_refusals",
    props=["C18", "C13"],
    targets=["flodym.mfa_definition.StockDefinition.check_lifetime_model", "flodym.mfa_definition.StockDefinition.init_solver", "flodym.mfa_definition.MFADefinition.check_dimension_letters", "flodym.mfa_definition.DefinitionWithDimLetters.check_dimensions", "flodym.stocks.Stock.validate_time_first_dim"],
    skeletons=sk_refusals,
)
def u_refusals(W, sk):
    import flodym.stocks as st
    import flodym.lifetime_models as lt
    from flodym.mfa_definition import StockDefinition, MFADefinition, DimensionDefinition, FlowDefinition, ParameterDefinition
    from flodym.stock_helper import make_empty_stocks
    from flodym.processes import make_processes

    c = sk["case"]
    dd = [DimensionDefinition(name="Time", letter="t", dtype=int), DimensionDefinition(name="Element", letter="e", dtype=str)]

    def mfadef(flows=(), stocks=(), parameters=()):
        return MFADefinition(dimensions=dd, processes=["sysenv", "use"], flows=list(flows), stocks=list(stocks), parameters=list(parameters))

    if c == "lifetime_missing":
        out = W.call(lambda: StockDefinition(name="s", dim_letters=("t",), subclass=st.InflowDrivenDSM))
        SL.check_raises(W, "stock definition without the required lifetime model", out, ValueError)
    elif c == "lifetime_unused":
        out = W.call(lambda: StockDefinition(name="s", dim_letters=("t",), subclass=st.SimpleFlowDrivenStock, lifetime_model_class=lt.NormalLifetime))
        SL.check_raises(W, "stock definition with an unused lifetime model", out, ValueError)
    elif c == "bad_solver":
        out = W.call(lambda: StockDefinition(name="s", dim_letters=("t",), subclass=st.SimpleFlowDrivenStock, solver="fast"))
        SL.check_raises(W, "stock definition with an unknown solver", out, ValueError)
    elif c.startswith("undefined_dimension"):
        bad = ("t", "q")
        if c.endswith("flow"):
            out = W.call(lambda: mfadef(flows=[FlowDefinition(from_process_name="sysenv", to_process_name="use", dim_letters=bad)]))
        elif c.endswith("stock"):
            out = W.call(lambda: mfadef(stocks=[StockDefinition(name="s", dim_letters=bad, subclass=st.SimpleFlowDrivenStock)]))
        else:
            out = W.call(lambda: mfadef(parameters=[ParameterDefinition(name="p", dim_letters=bad)]))
        SL.check_raises(W, "definition mentioning an undefined dimension", out, ValueError)
    elif c in ("time_not_first", "time_not_first_dsm"):
        D, dims = system_dims(W)
        processes = make_processes(["sysenv", "use"])
        if c == "time_not_first":
            sd = StockDefinition(name="s", dim_letters=("e", "t"), subclass=st.SimpleFlowDrivenStock)
        else:
            sd = StockDefinition(name="s", dim_letters=("e", "t"), subclass=st.InflowDrivenDSM, lifetime_model_class=lt.NormalLifetime)
        out = W.call(lambda: make_empty_stocks(stock_definitions=[sd], processes=processes, dims=dims))
        SL.check_raises(W, "stock whose time dimension is not first is refused when the system is built", out, ValueError)
    else:
        out = W.call(
            lambda: mfadef(
                flows=[FlowDefinition(from_process_name="sysenv", to_process_name="use", dim_letters=("t", "e"))],
                stocks=[StockDefinition(name="s", dim_letters=("t",), subclass=st.StockDrivenDSM, lifetime_model_class=lt.NormalLifetime, solver="lapack")],
                parameters=[ParameterDefinition(name="p", dim_letters=("e",))],
            )
        )
        W.prove("well-formed definition accepted", out.kind == "return", detail=repr(out))


# ----------------------------------------------------------------------------------------
# files (bounded)


def _write_table(path, rows, kind, sheet=None, other_sheets=()):
    import pandas as pd

    df = pd.DataFrame(rows)
    if kind == "csv":
        df.to_csv(path, header=False, index=False)
    else:
        with pd.ExcelWriter(path) as xw:
            first = sheet or "Sheet1"
            # the wanted sheet comes first unless a name is given, then it is placed second
            order = [(first, df)] + [(nm, pd.DataFrame(r)) for nm, r in other_sheets]
            if sheet is not None:
                order = order[1:] + order[:1]
            for nm, d in order:
                d.to_excel(xw, sheet_name=nm, header=False, index=False)


@unit(
    "files.dimension_readers.bounded",
    props=["C18"],
    targets=["flodym.dimensions.Dimension.from_np", "flodym.dimensions.Dimension.from_df", "flodym.data_reader.CSVDimensionReader.read_dimension", "flodym.data_reader.ExcelDimensionReader.read_dimension", "flodym.data_reader.DataReader.read_dimensions"],
    skeletons=lambda tier: [{"kind": k, "orient": o, "header": h, "dtype": d, "sheet": s} for k in ("csv", "xlsx") for o in ("row", "column") for h in (False, True) for d in ("int", "str") for s in ((None,) if k == "csv" else (None, "named"))],
    mode="bounded",
    note="dimension files written to a temporary directory: one row or one column, optionally headed by the dimension's name, items in file order converted to the declared type; Excel: the first sheet unless one is named; more than one row and column refused",
)
def u_dimension_files(W, sk):
    from flodym.mfa_definition import DimensionDefinition
    from flodym.data_reader import CSVDimensionReader, ExcelDimensionReader
    from flodym.dimensions import Dimension
    import numpy as np

    rng = W.rng
    n = rng.choice([1, 2, 3, 5])
    if sk["dtype"] == "int":
        items = [1990 + 3 * j + rng.randrange(3) for j in range(n)]
        dtype = int
    else:
        pool = ["x", "s", "Steel", "b c", "Fe", "m", "z9", "Wood"]
        rng.shuffle(pool)
        items = pool[:n]
        dtype = str
    name = "Size"
    letter = "s"
    cells = ([name] if sk["header"] else []) + items
    rows = [cells] if sk["orient"] == "row" else [[c] for c in cells]
    d = tempfile.mkdtemp(prefix="fvc_dim_")
    try:
        path = os.path.join(d, "dim." + sk["kind"])
        decoy = [["decoy", "sheet"], ["with", "other"], ["cells", "here"]]
        if sk["kind"] == "csv":
            _write_table(path, rows, "csv")
            reader = CSVDimensionReader(dimension_files={name: path})
        else:
            if sk["sheet"] == "named":
                _write_table(path, rows, "xlsx", sheet="wanted", other_sheets=[("Other", decoy)])
                reader = ExcelDimensionReader(dimension_files={name: path}, dimension_sheets={name: "wanted"})
            else:
                # (the later sheet bears the dimension's name: still the *first* sheet is the one to read)
                _write_table(path, rows, "xlsx", other_sheets=[(name, decoy)])
                reader = ExcelDimensionReader(dimension_files={name: path})
        dd = DimensionDefinition(name=name, letter=letter, dtype=dtype)
        out = W.call(lambda: reader.read_dimension(dd))
        W.prove("read_dimension.returns", out.kind == "return", detail=repr(out))
        if out.kind == "return":
            dim = out.value
            W.prove("read_dimension.items_in_file_order_with_declared_type", isinstance(dim, Dimension) and dim.name == name and dim.letter == letter and list(dim.items) == items and all(type(i) is dtype for i in dim.items), detail=f"got {getattr(dim, 'items', None)} want {items}")
        out = W.call(lambda: reader.read_dimensions([dd]))
        W.prove("read_dimensions.returns_set", out.kind == "return" and [x.letter for x in out.value.dim_list] == [letter], detail=repr(out))
        # history: the file at the same path is rewritten with other items and read again (by the same reader and by
        # a new one): the items are those the file holds now
        items2 = (items[::-1] + [items[0] + 1000]) if dtype is int else (items[::-1] + ["new item"])
        cells2 = ([name] if sk["header"] else []) + items2
        rows2 = [cells2] if sk["orient"] == "row" else [[c] for c in cells2]
        if sk["kind"] == "csv":
            _write_table(path, rows2, "csv")
            reader2 = CSVDimensionReader(dimension_files={name: path})
        elif sk["sheet"] == "named":
            _write_table(path, rows2, "xlsx", sheet="wanted", other_sheets=[("Other", decoy)])
            reader2 = ExcelDimensionReader(dimension_files={name: path}, dimension_sheets={name: "wanted"})
        else:
            _write_table(path, rows2, "xlsx", other_sheets=[(name, decoy)])
            reader2 = ExcelDimensionReader(dimension_files={name: path})
        for who, rd in (("same reader", reader), ("new reader", reader2)):
            out = W.call(lambda: rd.read_dimension(dd))
            W.prove(f"read_dimension.after_the_file_changed[{who}].items_of_the_current_file", out.kind == "return" and list(out.value.items) == items2, detail=f"got {getattr(out.value, 'items', None) if out.kind == 'return' else out!r} want {items2}")
        # a table with more than one row and column is refused
        out = W.call(lambda: Dimension.from_np(np.array([[1, 2], [3, 4]]), DimensionDefinition(name=name, letter=letter, dtype=int)))
        SL.check_raises(W, "from_np(two rows and two columns)", out, ValueError)
    finally:
        import shutil

        shutil.rmtree(d, ignore_errors=True)


@unit(
    "files.system_from_files.bounded",
    props=["C18"],
    targets=["flodym.mfa_system.MFASystem.from_csv", "flodym.mfa_system.MFASystem.from_excel", "flodym.mfa_system.MFASystem.from_data_reader", "flodym.data_reader.CSVParameterReader.read_parameter_values", "flodym.data_reader.ExcelParameterReader.read_parameter_values", "flodym.data_reader.DataReader.read_parameters", "flodym.data_reader.CompoundDataReader.read_dimension"],
    skeletons=lambda tier: [{"kind": k, "sheets": s} for k in ("csv", "xlsx") for s in ((None,) if k == "csv" else (None, "named"))],
    mode="bounded",
    note="a whole system assembled from temporary dimension and parameter files: processes, flows, stocks, parameters as defined; parameter values under their labels",
)
def u_system_files(W, sk):
    import numpy as np
    import pandas as pd
    import flodym.stocks as st
    import flodym.lifetime_models as lt
    from flodym.mfa_system import MFASystem
    from flodym.mfa_definition import MFADefinition, DimensionDefinition, FlowDefinition, StockDefinition, ParameterDefinition

    rng = W.rng
    years = [2000 + 2 * j for j in range(rng.choice([3, 4]))]
    elems = ["Fe", "Cu", "Al"][: rng.choice([1, 2, 3])]
    definition = MFADefinition(
        dimensions=[DimensionDefinition(name="Time", letter="t", dtype=int), DimensionDefinition(name="Element", letter="e", dtype=str)],
        processes=["sysenv", "use"],
        flows=[FlowDefinition(from_process_name="sysenv", to_process_name="use", dim_letters=("t", "e")), FlowDefinition(from_process_name="use", to_process_name="sysenv", dim_letters=("e",), name_override="back")],
        stocks=[StockDefinition(name="in use", process_name="use", dim_letters=("t", "e"), subclass=st.StockDrivenDSM, lifetime_model_class=lt.NormalLifetime, solver="lapack")],
        parameters=[ParameterDefinition(name="share", dim_letters=("e", "t"))],
    )
    vals = np.array([[float(rng.randint(1, 50)) for _ in years] for _ in elems])
    long = pd.DataFrame([{"Element": e, "Time": y, "value": vals[i, j]} for i, e in enumerate(elems) for j, y in enumerate(years)])
    d = tempfile.mkdtemp(prefix="fvc_sys_")
    try:
        ext = sk["kind"]
        dimfiles = {"Time": os.path.join(d, "t." + ext), "Element": os.path.join(d, "e." + ext)}
        prmfile = os.path.join(d, "share." + ext)
        if ext == "csv":
            _write_table(dimfiles["Time"], [[y] for y in years], "csv")
            _write_table(dimfiles["Element"], [elems], "csv")
            long.sample(frac=1.0, random_state=rng.randrange(1000)).to_csv(prmfile, index=False)
            out = W.call(lambda: MFASystem.from_csv(definition, dimension_files=dimfiles, parameter_files={"share": prmfile}))
        else:
            named = sk["sheets"] == "named"
            _write_table(dimfiles["Time"], [[y] for y in years], "xlsx", sheet="T" if named else None, other_sheets=[("zzz" if named else "Time", [["n", "o"], ["p", "e"]])])
            _write_table(dimfiles["Element"], [elems], "xlsx", sheet="E" if named else None, other_sheets=[("zzz" if named else "Element", [["n", "o"], ["p", "e"]])])
            with pd.ExcelWriter(prmfile) as xw:
                if named:
                    pd.DataFrame({"a": [1]}).to_excel(xw, sheet_name="first", index=False)
                long.to_excel(xw, sheet_name="P", index=False)
                if not named:
                    pd.DataFrame({"a": [1]}).to_excel(xw, sheet_name="share", index=False)  # a later sheet named like the parameter
            kw = dict(dimension_sheets={"Time": "T", "Element": "E"}, parameter_sheets={"share": "P"}) if named else {}
            out = W.call(lambda: MFASystem.from_excel(definition, dimension_files=dimfiles, parameter_files={"share": prmfile}, **kw))
        W.prove("from_files.returns", out.kind == "return", detail=repr(out))
        if out.kind != "return":
            return
        mfa = out.value
        W.prove("from_files.dimensions", [x.letter for x in mfa.dims.dim_list] == ["t", "e"] and list(mfa.dims["t"].items) == years and list(mfa.dims["e"].items) == elems)
        W.prove("from_files.processes", list(mfa.processes.keys()) == ["sysenv", "use"] and [p.id for p in mfa.processes.values()] == [0, 1])
        W.prove("from_files.flows", list(mfa.flows.keys()) == ["sysenv => use", "back"] and mfa.flows["back"].dims.letters == ("e",) and mfa.flows["sysenv => use"].dims.letters == ("t", "e") and all(float(np.abs(f.values).sum()) == 0.0 for f in mfa.flows.values()))
        s = mfa.stocks.get("in use")
        W.prove("from_files.stock", isinstance(s, st.StockDrivenDSM) and s.solver == "lapack" and isinstance(s.lifetime_model, lt.NormalLifetime) and s.process is mfa.processes["use"] and s.dims.letters == ("t", "e"), detail=f"solver={getattr(s, 'solver', None)}")
        p = mfa.parameters.get("share")
        W.prove("from_files.parameter_under_its_labels", p is not None and p.dims.letters == ("e", "t") and p.values.shape == vals.shape and bool(np.array_equal(p.values, vals)))
    finally:
        import shutil

        shutil.rmtree(d, ignore_errors=True)
