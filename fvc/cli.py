from __future__ import annotations

import argparse
import json
import os
import sys


def main():
    import warnings

    warnings.simplefilter("ignore", RuntimeWarning)
    import logging

    logging.disable(logging.CRITICAL)
    ap = argparse.ArgumentParser()
    ap.add_argument("prop", nargs="?")
    ap.add_argument("--tier", default=os.environ.get("VERIF_TIER", "quick"))
    ap.add_argument("--unit", default=None)
    ap.add_argument("--replay", default=None)
    ap.add_argument("--list", action="store_true")
    ap.add_argument("--benign", action="store_true", help="apply the corpus of behaviour-preserving refactors; every check must stay at exit 0 (no false alarm)")
    ap.add_argument("--patch", default=None, help="with --benign: only this patch of the corpus")
    ap.add_argument("--selftest", action="store_true", help="apply the mutant corpus of this property in a scratch copy; every mutant must fail the expected obligation")
    a = ap.parse_args()
    seed = int(os.environ.get("VERIF_SEED", "0") or 0)
    from . import runner, units

    if a.list:
        units.load_all()
        for u in units.UNITS.values():
            print(u.name, u.props, len(list(u.skeletons(a.tier))))
        return 0
    if a.replay:
        return replay(a.replay)
    if a.benign:
        return benign(a.prop, a.patch)
    if not a.prop:
        ap.error("property id required")
    if a.selftest:
        return selftest(a.prop)
    os.environ["FVC_TIER"] = a.tier  # read by the numpy model (worker processes inherit it)
    rc = runner.check_property(a.prop, tier=a.tier, seed=seed, only_unit=a.unit)
    if rc == 0 and a.tier == "thorough" and a.unit is None and not os.environ.get("FVC_REPO"):
        rc2 = selftest(a.prop)
        if rc2 != 0:
            print(f"CHECKER-ERROR mutation self-test of {a.prop} failed: a corpus mutant was not detected")
            return 3
    return rc


def benign(only_prop=None, only_patch=None, jobs=3):
    """behaviour-preserving refactors of /repo (benign/*.patch) must not raise any alarm: exit 0 required.
    props "all" in the index = every claimed property's quick check runs on the refactored tree."""
    import shutil
    import subprocess
    import tempfile
    from concurrent.futures import ThreadPoolExecutor

    here = os.path.dirname(os.path.dirname(os.path.abspath(__file__)))
    idx = json.load(open(os.path.join(here, "benign", "index.json")))
    claimed = sorted(c["property_id"] for c in json.load(open(os.path.join(here, "MANIFEST.json")))["checks"])
    jobs = int(os.environ.get("FVC_BENIGN_JOBS", jobs))

    def one(m):
        out = []
        bad = 0
        props = claimed if m["props"] == "all" else m["props"]
        props = [p for p in props if not only_prop or p == only_prop]
        if not props:
            return out, bad
        scratch = tempfile.mkdtemp(prefix="fvc_benign_")
        try:
            shutil.copytree("/repo/flodym", os.path.join(scratch, "flodym"))
            r = subprocess.run(["patch", "-p1", "-s", "-d", scratch, "-i", os.path.join(here, "benign", m["patch"])], capture_output=True, text=True)
            if r.returncode != 0:
                out.append(f"BENIGN {m['patch']}: patch does not apply (skipped)")
                return out, bad
            for prop in props:
                env = dict(os.environ, FVC_REPO=scratch, FVC_EVIDENCE_DIR=os.path.join(scratch, "evidence"), FVC_REPLAY_DIR=os.path.join(scratch, "replays"))
                r = subprocess.run([os.path.join(here, "check"), prop, "--tier", "quick"], capture_output=True, text=True, env=env)
                notes = [l for l in r.stdout.splitlines() if l.startswith(("VIOLATION", "UNDECIDED", "CHECKER"))][:2]
                if r.returncode == 0:
                    verdict = "ok"
                elif r.returncode != 1 and m.get("undecided_ok") and not any(n.startswith("VIOLATION") for n in notes):
                    verdict = "undecided (expected: " + m["undecided_ok"][:60] + "...)"
                else:
                    verdict = ("FALSE ALARM " if r.returncode == 1 else "UNDECIDED ") + " | ".join(n[:200] for n in notes)
                    bad += 1
                out.append(f"BENIGN {m['patch']} / {prop}: exit={r.returncode} {verdict}")
        finally:
            shutil.rmtree(scratch, ignore_errors=True)
        return out, bad

    todo = [m for m in idx if not only_patch or m["patch"] == only_patch]
    total = 0
    with ThreadPoolExecutor(max_workers=jobs) as ex:
        for out, bad in ex.map(one, todo):
            for l in out:
                print(l, flush=True)
            total += bad
    print(f"BENIGN: {total} alarms (a run that exits 1 on a behaviour-preserving patch, or an undecided run that the index does not expect)")
    return 0 if total == 0 else 3


def selftest(prop):
    """design 1.8: every corpus mutant tagged with this property must make the check exit 1 with a VIOLATION of
    the expected obligation.  Runs on scratch copies of /repo's flodym package (removed afterwards)."""
    import shutil
    import subprocess
    import tempfile

    here = os.path.dirname(os.path.dirname(os.path.abspath(__file__)))
    idx = json.load(open(os.path.join(here, "mutants", "index.json")))
    bad = 0
    n = 0
    for m in idx:
        if m["prop"] != prop:
            continue
        n += 1
        scratch = tempfile.mkdtemp(prefix="fvc_mutant_")
        try:
            shutil.copytree("/repo/flodym", os.path.join(scratch, "flodym"))
            r = subprocess.run(["patch", "-p1", "-s", "-d", scratch, "-i", os.path.join(here, "mutants", m["patch"])], capture_output=True, text=True)
            if r.returncode != 0:
                print(f"SELFTEST {m['patch']}: patch does not apply to the current tree (skipped): {r.stdout.strip()[:120]}")
                continue
            env = dict(os.environ, FVC_REPO=scratch, FVC_EVIDENCE_DIR=os.path.join(scratch, "evidence"), FVC_REPLAY_DIR=os.path.join(scratch, "replays"))
            r = subprocess.run([os.path.join(here, "check"), prop, "--tier", "quick", "--unit", m["unit"]], capture_output=True, text=True, env=env)
            viol = [l for l in r.stdout.splitlines() if l.startswith("VIOLATION")]
            ok = r.returncode == 1 and any(any(e.replace("[", "_").replace("]", "_") in v or e in v for e in m["expect"]) for v in viol)
            print(f"SELFTEST {m['patch']} on {m['unit']}: exit={r.returncode} violations={len(viol)} -> {'detected' if ok else 'NOT DETECTED'}")
            if not ok:
                bad += 1
        finally:
            shutil.rmtree(scratch, ignore_errors=True)
    print(f"SELFTEST {prop}: {n} mutants, {bad} not detected")
    return 0 if bad == 0 else 3


def replay(path):
    from . import runner, units

    units.load_all()
    rec = json.load(open(path))
    u = units.UNITS[rec["unit"]]
    fi = None
    if rec.get("replay") and rec["replay"].get("result"):
        fi = rec["replay"]["result"]
    elif rec.get("failing_input"):
        fi = rec["failing_input"]
    if not fi:
        print(f"no failing input recorded for obligation {rec.get('obligation')} (solver output in file)")
        return 2
    inputs = fi.get("inputs") or {}
    r = runner.run_concrete(
        u,
        rec["skeleton"],
        seed=fi.get("seed", 0),
        sizes=fi.get("sizes"),
        values={k: v for k, v in inputs.items() if isinstance(v, list)},
        numbers={k: v for k, v in inputs.items() if isinstance(v, (int, float))},
        positions=inputs.get("_positions"),
        subsets=inputs.get("_subsets"),
    )
    print(json.dumps(r, indent=1)[:3000])
    return 1 if r["status"] == "fail" else 0


if __name__ == "__main__":
    sys.exit(main())
