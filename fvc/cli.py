from __future__ import annotations

import argparse
import json
import os
import sys


def main():
    import warnings

    warnings.simplefilter("ignore", RuntimeWarning)
    import logging

    logging.disable(logging.CRITICAL)
    ap = argparse.ArgumentParser()
    ap.add_argument("prop", nargs="?")
    ap.add_argument("--tier", default=os.environ.get("VERIF_TIER", "quick"))
    ap.add_argument("--unit", default=None)
    ap.add_argument("--replay", default=None)
    ap.add_argument("--list", action="store_true")
    a = ap.parse_args()
    seed = int(os.environ.get("VERIF_SEED", "0") or 0)
    from . import runner, units

    if a.list:
        units.load_all()
        for u in units.UNITS.values():
            print(u.name, u.props, len(list(u.skeletons(a.tier))))
        return 0
    if a.replay:
        return replay(a.replay)
    if not a.prop:
        ap.error("property id required")
    return runner.check_property(a.prop, tier=a.tier, seed=seed, only_unit=a.unit)


def replay(path):
    from . import runner, units

    units.load_all()
    rec = json.load(open(path))
    u = units.UNITS[rec["unit"]]
    fi = None
    if rec.get("replay") and rec["replay"].get("result"):
        fi = rec["replay"]["result"]
    elif rec.get("failing_input"):
        fi = rec["failing_input"]
    if not fi:
        print(f"no failing input recorded for obligation {rec.get('obligation')} (solver output in file)")
        return 2
    inputs = fi.get("inputs") or {}
    r = runner.run_concrete(
        u,
        rec["skeleton"],
        seed=fi.get("seed", 0),
        sizes=fi.get("sizes"),
        values={k: v for k, v in inputs.items() if isinstance(v, list)},
        numbers={k: v for k, v in inputs.items() if isinstance(v, (int, float))},
        positions=inputs.get("_positions"),
        subsets=inputs.get("_subsets"),
    )
    print(json.dumps(r, indent=1)[:3000])
    return 1 if r["status"] == "fail" else 0


if __name__ == "__main__":
    sys.exit(main())
