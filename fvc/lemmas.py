"""Lemma library over finite sums, proved by induction with z3 on every run.

Sums over an integer range are characterised by the recursive definition
    T(lo, lo) = 0,   T(lo, n+1) = T(lo, n) + f(n)   (n >= lo)
with f an arbitrary (uninterpreted) function.  Each lemma is discharged as a base obligation and
a step obligation; the induction hypothesis is stated for the fixed n of the step.  Quantified
hypotheses inside a lemma (pointwise equality on the range) are given to z3 as quantified formulas;
the problems are tiny.  The engine uses these lemmas only through explicit instantiation
(harness.lemma_sum_*) and through the normaliser rules of core.mk_sum (SUM-LIN, SUM-CONST, SUM-COMM).
"""
from __future__ import annotations

import time
import z3

I, R = z3.IntSort(), z3.RealSort()


def _check(name, hyps, goal, out):
    s = z3.Solver()
    s.set("timeout", 20000)
    for h in hyps:
        s.add(h)
    s.add(z3.Not(goal))
    t0 = time.time()
    r = s.check()
    out.append({"name": name, "status": "proved" if r == z3.unsat else ("refuted" if r == z3.sat else "undecided"), "solver_s": round(time.time() - t0, 4)})


def sumdef(T, f, lo, n):
    """definition instances of T = sum of f at upper bound n (and n+1)"""
    return [T(lo, lo) == 0, z3.Implies(n >= lo, T(lo, n + 1) == T(lo, n) + f(n))]


def prove_all():
    out = []
    n, lo, t, j, mid = z3.Ints("n lo t j mid")
    c, X = z3.Reals("c X")
    f = z3.Function("f", I, R)
    g = z3.Function("g", I, R)
    Tf = z3.Function("Tf", I, I, R)
    Tg = z3.Function("Tg", I, I, R)
    Th = z3.Function("Th", I, I, R)

    # SUM-EXT: (forall j in [lo,n): f j = g j) => Tf(lo,n) = Tg(lo,n)
    ext = lambda m: z3.Implies(z3.ForAll([j], z3.Implies(z3.And(j >= lo, j < m), f(j) == g(j))), Tf(lo, m) == Tg(lo, m))
    _check("SUM-EXT.base", sumdef(Tf, f, lo, lo) + sumdef(Tg, g, lo, lo), ext(lo), out)
    _check("SUM-EXT.step", sumdef(Tf, f, lo, n) + sumdef(Tg, g, lo, n) + [n >= lo, ext(n)], ext(n + 1), out)

    # SUM-ZERO: (forall j in [lo,n): f j = 0) => Tf(lo,n) = 0
    zero = lambda m: z3.Implies(z3.ForAll([j], z3.Implies(z3.And(j >= lo, j < m), f(j) == 0)), Tf(lo, m) == 0)
    _check("SUM-ZERO.base", sumdef(Tf, f, lo, lo), zero(lo), out)
    _check("SUM-ZERO.step", sumdef(Tf, f, lo, n) + [n >= lo, zero(n)], zero(n + 1), out)

    # SUM-NONNEG
    nn = lambda m: z3.Implies(z3.ForAll([j], z3.Implies(z3.And(j >= lo, j < m), f(j) >= 0)), Tf(lo, m) >= 0)
    _check("SUM-NONNEG.base", sumdef(Tf, f, lo, lo), nn(lo), out)
    _check("SUM-NONNEG.step", sumdef(Tf, f, lo, n) + [n >= lo, nn(n)], nn(n + 1), out)

    # SUM-DELTA: g j = ite(j = t, X, 0)  =>  Tg(lo,n) = ite(lo <= t < n, X, 0)
    gdef = lambda m: g(m) == z3.If(m == t, X, 0)
    delta = lambda m: Tg(lo, m) == z3.If(z3.And(t >= lo, t < m), X, 0)
    _check("SUM-DELTA.base", sumdef(Tg, g, lo, lo), delta(lo), out)
    _check("SUM-DELTA.step", sumdef(Tg, g, lo, n) + [n >= lo, gdef(n), delta(n)], delta(n + 1), out)

    # SUM-LIN: h = f + g => Th = Tf + Tg ;  h = c*f => Th = c*Tf
    h = z3.Function("h", I, R)
    lin = lambda m: Th(lo, m) == Tf(lo, m) + Tg(lo, m)
    _check("SUM-LIN.add.base", sumdef(Th, h, lo, lo) + sumdef(Tf, f, lo, lo) + sumdef(Tg, g, lo, lo), lin(lo), out)
    _check("SUM-LIN.add.step", sumdef(Th, h, lo, n) + sumdef(Tf, f, lo, n) + sumdef(Tg, g, lo, n) + [n >= lo, h(n) == f(n) + g(n), lin(n)], lin(n + 1), out)
    scal = lambda m: Th(lo, m) == c * Tf(lo, m)
    _check("SUM-LIN.scale.base", sumdef(Th, h, lo, lo) + sumdef(Tf, f, lo, lo), scal(lo), out)
    _check("SUM-LIN.scale.step", sumdef(Th, h, lo, n) + sumdef(Tf, f, lo, n) + [n >= lo, h(n) == c * f(n), scal(n)], scal(n + 1), out)

    # SUM-CONST: f j = c => Tf(lo,n) = (n - lo) * c
    const = lambda m: Tf(lo, m) == z3.ToReal(m - lo) * c
    _check("SUM-CONST.base", sumdef(Tf, f, lo, lo), const(lo), out)
    _check("SUM-CONST.step", sumdef(Tf, f, lo, n) + [n >= lo, f(n) == c, const(n)], const(n + 1), out)

    # SUM-SPLIT: lo <= mid <= n => Tf(lo,n) = Tf(lo,mid) + Tf(mid,n)   (induction on n from mid)
    split = lambda m: Tf(lo, m) == Tf(lo, mid) + Tf(mid, m)
    _check("SUM-SPLIT.base", [lo <= mid, Tf(mid, mid) == 0], split(mid), out)
    _check(
        "SUM-SPLIT.step",
        [lo <= mid, n >= mid, z3.Implies(n >= lo, Tf(lo, n + 1) == Tf(lo, n) + f(n)), z3.Implies(n >= mid, Tf(mid, n + 1) == Tf(mid, n) + f(n)), split(n)],
        split(n + 1),
        out,
    )

    # SUM-UNFOLD (last term): definitional
    _check("SUM-UNFOLD", sumdef(Tf, f, lo, n - 1) + [n > lo], Tf(lo, n) == Tf(lo, n - 1) + f(n - 1), out)

    # SUM-COMM (Fubini for two finite sums with independent ranges), by induction on the outer bound
    # using SUM-LIN:  A(n,m) = sum_{i<n} row(i,m),  B(n,m) = sum_{j<m} col(j,n)
    a = z3.Function("a", I, I, R)
    row = z3.Function("row", I, I, R)  # row(i,m) = sum_{j<m} a(i,j)
    col = z3.Function("col", I, I, R)  # col(j,n) = sum_{i<n} a(i,j)
    A = z3.Function("A", I, I, R)
    B = z3.Function("B", I, I, R)
    m, i = z3.Ints("m i")
    # inner lemma (induction on m, n fixed): B(n+1,m) = B(n,m) + row(n,m)
    inner = lambda mm: B(n + 1, mm) == B(n, mm) + row(n, mm)
    defs_inner = lambda mm: [
        B(n + 1, 0) == 0,
        B(n, 0) == 0,
        row(n, 0) == 0,
        B(n + 1, mm + 1) == B(n + 1, mm) + col(mm, n + 1),
        B(n, mm + 1) == B(n, mm) + col(mm, n),
        row(n, mm + 1) == row(n, mm) + a(n, mm),
        col(mm, n + 1) == col(mm, n) + a(n, mm),
    ]
    _check("SUM-COMM.inner.base", defs_inner(0), inner(0), out)
    _check("SUM-COMM.inner.step", defs_inner(m) + [m >= 0, n >= 0, inner(m)], inner(m + 1), out)
    # outer induction on n: A(n,m) = B(n,m), using the inner lemma at n
    outer = lambda nn_: A(nn_, m) == B(nn_, m)
    _check("SUM-COMM.outer.base", [A(0, m) == 0, z3.ForAll([j], col(j, 0) == 0), B(0, m) == 0], outer(0), out)
    _check("SUM-COMM.outer.step", [n >= 0, m >= 0, A(n + 1, m) == A(n, m) + row(n, m), inner(m), outer(n)], outer(n + 1), out)

    # TELESCOPE: f j = G(j-1) - G(j)  =>  Tf(lo,n) = G(lo-1) - G(n-1)
    G = z3.Function("G", I, R)
    tel = lambda mm: Tf(lo, mm) == G(lo - 1) - G(mm - 1)
    _check("TELESCOPE.base", sumdef(Tf, f, lo, lo), tel(lo), out)
    _check("TELESCOPE.step", sumdef(Tf, f, lo, n) + [n >= lo, f(n) == G(n - 1) - G(n), tel(n)], tel(n + 1), out)
    # TRI-UNIQUE: two solutions of a lower-triangular system with non-zero diagonal agree
    # (strong induction on the row; the partial sums are related through SUM-EXT, given as an axiom
    #  for the two summand functions  j -> A(k,j) x(j)  and  j -> A(k,j) y(j))
    Am = z3.Function("Am", I, I, R)
    xs = z3.Function("xs", I, R)
    ys = z3.Function("ys", I, R)
    bs = z3.Function("bs", I, R)
    Sx = z3.Function("Sx", I, R)  # Sx(k) = sum_{j<k} Am(k,j) xs(j)
    Sy = z3.Function("Sy", I, R)
    k = z3.Int("k")
    ext_axiom = z3.Implies(z3.ForAll([j], z3.Implies(z3.And(j >= 0, j < k), Am(k, j) * xs(j) == Am(k, j) * ys(j))), Sx(k) == Sy(k))
    hyps = [
        k >= 0,
        k < n,
        ext_axiom,
        Sx(k) + Am(k, k) * xs(k) == bs(k),
        Sy(k) + Am(k, k) * ys(k) == bs(k),
        Am(k, k) != 0,
        z3.ForAll([j], z3.Implies(z3.And(j >= 0, j < k), xs(j) == ys(j))),  # strong induction hypothesis
    ]
    _check("TRI-UNIQUE.step", hyps, xs(k) == ys(k), out)
    return out


if __name__ == "__main__":
    for r in prove_all():
        print(r)
