"""Worlds: the same contract / verification-unit code runs in a SymWorld (symbolic proof:
obligations go to z3) and in a ConcWorld (concrete replay / run-time contract check: obligations
are evaluated by CPython on real flodym objects).
"""
from __future__ import annotations

import contextlib
import itertools
import os
import math
import random
import z3
import numpy as _np

from . import core, symnp, world
from .core import SymInt, SymReal, SymBool, wrap, to_int, to_real, unwrap


class Outcome:
    def __init__(self, kind, value=None, exc=None, origin=None):
        self.kind = kind  # 'return' | 'raise'
        self.value = value
        self.exc = exc
        self.origin = origin  # where the exception was raised: 'code' (flodym) | 'value model' | 'library'

    def __repr__(self):
        if self.kind == "return":
            return f"Outcome(return {type(self.value).__name__})"
        return f"Outcome(raise {type(self.exc).__name__}: {str(self.exc)[:80]})" + (f" [raised in the {self.origin}]" if self.origin and self.origin != "code" else "")


class ContractViolation(Exception):
    """concrete world: an obligation evaluated to False"""

    def __init__(self, name, detail=""):
        super().__init__(f"{name}: {detail}")
        self.name = name
        self.detail = detail


class _Stubs:
    """Temporarily replace attributes (callee contracts installed as stubs)."""

    def __init__(self, stubs):
        self.stubs = stubs or []
        self.saved = []

    def __enter__(self):
        for owner, attr, new in self.stubs:
            had = attr in owner.__dict__ if hasattr(owner, "__dict__") else hasattr(owner, attr)
            old = owner.__dict__[attr] if had else None
            self.saved.append((owner, attr, had, old))
            setattr(owner, attr, new)

    def __exit__(self, *a):
        for owner, attr, had, old in reversed(self.saved):
            if had:
                setattr(owner, attr, old)
            else:
                try:
                    delattr(owner, attr)
                except AttributeError:
                    pass


_MODEL_TYPE_NAMES = ("SymBool", "SymInt", "SymReal", "SymArr", "SymItemList", "SymItemSet", "SymSeq", "SymRange", "SymTable", "SymEnumerate", "SymZip", "ItemPosMap", "FakeIndex", "FakePandas", "FakeLifetime", "FakeT", "_CutLoop", "BoolCol", "ColValues", "ColSet", "Opaque", "ArithRef", "BoolRef", "ExprRef", "'Item'", "'Col'", "'Rows'", "fvc.")


def _raised_in(e):
    """where the innermost frame of the exception's traceback lives"""
    tb = e.__traceback__
    fn = ""
    while tb is not None:
        fn = tb.tb_frame.f_code.co_filename
        tb = tb.tb_next
    here = os.path.dirname(os.path.dirname(os.path.abspath(__file__)))
    if fn.startswith(os.path.join(here, "fvc")) or fn.startswith(os.path.join(here, "contracts")):
        return "value model"
    if os.sep + "flodym" + os.sep in fn and "site-packages" not in fn:
        return "code"
    return "library"


def _is_value_model_gap(e):
    """an AttributeError / TypeError / NotImplementedError (or a z3 error) that names a class of the value model: the
    code under test asked a symbolic stand-in for something only the real numpy / pandas value has"""
    try:
        import z3 as _z3

        if isinstance(e, _z3.Z3Exception):
            return True
    except Exception:
        pass
    if not isinstance(e, (AttributeError, TypeError, NotImplementedError)):
        return False
    msg = str(e)
    return any(t in msg for t in _MODEL_TYPE_NAMES)


class BaseWorld:
    symbolic = False

    def __init__(self):
        self.log = []
        self.called_stubs = []

    # ---- calling the real code
    def call(self, thunk, stubs=None):
        stubs = list(stubs or [])
        if self.symbolic:
            stubs += world.rewrite_stubs()
        import io

        with self._shims(), _Stubs(stubs), contextlib.redirect_stdout(io.StringIO()):
            try:
                v = thunk()
                return Outcome("return", v)
            except core.EngineError as e:
                # the code under test used the value model in a way the model has no answer for: undecided, the
                # concrete evaluation of the same contract takes over
                raise core.Unsupported(f"value model: {e}") from e
            except (core.Unsupported, core.PathInfeasible, ContractViolation):
                raise
            except Exception as e:  # an exception raised by the code under test is an outcome
                if self.symbolic and _is_value_model_gap(e):
                    # ... unless it only says that a symbolic stand-in lacks something the real value has (a method of
                    # numpy scalars, an operand type): the real code would not raise here -> undecided, the concrete
                    # evaluation of the same contract takes over
                    raise core.Unsupported(f"value model: {type(e).__name__}: {str(e)[:160]}") from e
                origin = _raised_in(e)
                if self.symbolic and origin == "value model" and getattr(self.c, "model_exc", None) is None:
                    # raised by a frame of the numpy / pandas model (its emulation of a library error -- or a gap of
                    # the emulation): a native run of the same input raises it too if it is the library's
                    self.c.model_exc = f"{type(e).__name__}: {str(e)[:200]}"
                return Outcome("raise", exc=e, origin=origin)

    def spec(self, thunk):
        """evaluate a specification function (may raise the specified exception)"""
        try:
            return Outcome("return", thunk())
        except (core.Unsupported, core.PathInfeasible, core.EngineError, ContractViolation):
            raise
        except SpecRaise as e:
            return Outcome("raise", exc=e.exc_type(str(e)))

    # ---- helpers shared by both worlds
    def letters(self, fa):
        return tuple(d.letter for d in fa.dims.dim_list)

    def size_of(self, dim):
        return symnp.sh_len(dim.items)


class SpecRaise(Exception):
    def __init__(self, exc_type, msg=""):
        super().__init__(msg)
        self.exc_type = exc_type


class SymWorld(BaseWorld):
    symbolic = True

    def __init__(self, c: core.Ctx):
        super().__init__()
        self.c = c
        self._names = itertools.count()
        self.in_dims = {}  # letter -> size (int | SymInt)
        self.in_arrays = {}  # name -> SymArr (input, pristine frozen reader)
        self.in_numbers = {}  # name -> z3 Real
        self.in_positions = {}  # tag -> z3 Int (position of a selected item)
        self.in_subsets = {}  # tag -> (sub item list, parent item list)

    def size_terms(self):
        return [n.e for n in self.in_dims.values() if isinstance(n, SymInt)]

    def concretize(self, m):
        """concrete input (sizes, array entries, numbers) from a z3 model"""
        import fractions

        def val(e):
            v = m.eval(e, model_completion=True)
            if z3.is_int_value(v):
                return v.as_long()
            if z3.is_rational_value(v):
                return float(fractions.Fraction(v.numerator_as_long(), v.denominator_as_long()))
            if z3.is_algebraic_value(v):
                return float(v.approx(12).as_fraction())
            if z3.is_true(v):
                return 1.0
            if z3.is_false(v):
                return 0.0
            return None

        sizes = {}
        for letter, n in self.in_dims.items():
            sizes[letter] = n if isinstance(n, int) else val(n.e)
        values = {}
        for name, (reader, shape) in self.in_arrays.items():
            cs = [s if isinstance(s, int) else val(s.e) for s in shape]
            if any(c is None or c > 6 for c in cs):
                continue

            def build(prefix, rest):
                if not rest:
                    return val(reader(tuple(prefix)))
                return [build(prefix + [i], rest[1:]) for i in range(rest[0])]

            values[name] = build([], cs)
        numbers = {name: val(e) for name, e in self.in_numbers.items()}
        positions = {tag: val(e) for tag, e in self.in_positions.items()}
        subsets = {}
        for tag, (sub, par) in self.in_subsets.items():
            n = sizes.get(tag)
            if n is None or n > 8:
                continue
            subsets[tag] = [val(par._pos(sub._at(z3.IntVal(j)))) for j in range(n)]
        return {"sizes": sizes, "values": values, "numbers": numbers, "positions": positions, "subsets": subsets}

    def _shims(self):
        return world.shims()

    # inputs
    def dim(self, letter, name=None, lo=1, n=None, tag=None, numeric_ok=False):
        d = world.make_dimension(letter, name=name, lo=lo, n=n, tag=tag)
        self.in_dims.setdefault(tag or letter, d.items.n)
        return d

    def array(self, name, dims, cls=None, int_ok=False):
        a = world.make_array(name, dims, cls=cls)
        self.in_arrays[name] = (a.values.frozen(), a.values.shape)
        return a

    def number(self, name):
        e = z3.Real(name)
        self.in_numbers[name] = e
        return SymReal(e)

    def ndarray(self, name, shape, kind="real"):
        a = symnp.SymArr.input(name, tuple(shape), kind)
        self.in_arrays[name] = (a.frozen(), a.shape)
        return a

    def fresh_int(self, name, lo=None, hi=None):
        v = SymInt(self.c.fresh(name, "int"))
        if lo is not None:
            self.c.assume(v.e >= to_int(lo))
        if hi is not None:
            self.c.assume(v.e < to_int(hi))
        return v

    def index_choices(self, name, sizes):
        """index tuples covering all of prod [0,size): one Skolem tuple if every size is symbolic, else
        concrete axes enumerated (small) and symbolic ones Skolemised"""
        conc = [j for j, n in enumerate(sizes) if isinstance(n, int)]
        out = []
        for combo in itertools.product(*[range(sizes[j]) for j in conc]):
            ci = iter(combo)
            out.append(tuple(next(ci) if j in conc else self.fresh_int(f"{name}{j}", 0, n) for j, n in enumerate(sizes)))
        return out

    # items / labels
    def item_in(self, dim, tag):
        """an item of `dim` at an arbitrary position -> (item, position)"""
        p = SymInt(z3.Int(f"p_{tag}"))
        self.c.assume(z3.And(p.e >= 0, p.e < to_int(self.size_of(dim))))
        self.in_positions[tag] = p.e
        return world.Item(dim.items.at_expr(p), tag), p

    def foreign_item(self, tag, dims):
        """an item that occurs in none of `dims`"""
        e = z3.Int(f"foreign_{tag}")
        for d in dims:
            self.c.assume(z3.Not(d.items.contains_expr(e)))
        return world.Item(e, tag)

    def subset_dim(self, parent, letter, tag, name=None, subset=True):
        """Dimension whose items are (if subset) items of `parent`, in arbitrary order"""
        d = world.make_dimension(letter, name=name or f"Sub{tag}", tag=tag)
        self.in_dims[tag] = d.items.n
        if subset:
            d.items.assume_subset_of(parent.items)
        self.in_subsets[tag] = (d.items, parent.items)
        return d

    def item_list(self, parent, tag):
        """user-supplied list of pairwise distinct items of parent (arbitrary order, symbolic length)"""
        lst = world.SymItemList(tag)
        self.in_dims[tag] = lst.n
        lst.assume_subset_of(parent.items)
        self.in_subsets[tag] = (lst, parent.items)
        return lst

    def item_at(self, items, j):
        return world.Item(items.at_expr(to_int(j)))

    def index_in(self, items, item):
        """-> (contained, position)"""
        return wrap(items.contains_expr(item.e)), wrap(items._pos(item.e))

    def items_len(self, items):
        return symnp.sh_len(items)

    # logic
    def assume(self, cond, why=None):
        self.c.assume(cond, why)

    def prove(self, name, cond, kind="post", hyps=(), detail=""):
        if isinstance(cond, bool) and cond:
            ob = core.Obligation(name, "proved", None, detail or "ground", 0.0, self.c.path_id(), kind, "ground")
            self.c.obligations.append(ob)
            return ob
        if isinstance(cond, bool):
            cond = z3.BoolVal(cond)
        return self.c.prove(name, cond, kind=kind, hyps=hyps, detail=detail)

    def cover(self, name, cond=True):
        return self.c.cover(name, cond)

    def num_eq(self, a, b):
        return wrap(to_real(a) == to_real(b))

    def div(self, a, b):
        return wrap(to_real(a) / to_real(b))

    def sum(self, ranges, body):
        """ranges: list of (tag, lo, hi); body(list of index terms) -> number"""
        bvars = []
        for tag, lo, hi in ranges:
            bvars.append((core.bound_var(tag), lo, hi))
        e = body([wrap(v) for v, _, _ in bvars])
        return wrap(core.mk_sum([(v, unwrap(lo), unwrap(hi)) for v, lo, hi in bvars], to_real(e)))

    def forall(self, name, sizes, pred, kind="post", detail=""):
        """prove  forall idx in prod [0,size): pred(idx)  at fresh Skolem constants"""
        idx = []
        hyps = []
        for j, n in enumerate(sizes):
            v = self.c.fresh(f"k{j}", "int")
            idx.append(wrap(v))
            hyps += [v >= 0, v < to_int(n)]
        for j, v in enumerate(idx):
            self.c.watch(f"{name}.idx{j}", v)
        goal = pred(tuple(idx))
        if isinstance(goal, bool):
            goal = z3.BoolVal(goal)
        return self.c.prove(name, goal, kind=kind, hyps=hyps, detail=detail)


    # ---- proof rules over finite sums (each is an instance of a lemma proved in fvc.lemmas)
    def forall_range(self, name, ranges, pred, kind="post", detail="", hyps=()):
        """prove pred for all index tuples: symbolic ranges at fresh Skolem constants, small concrete
        ranges by enumeration (so that literal indices of concrete-size axes stay literal)"""
        conc = [j for j, (lo, hi) in enumerate(ranges) if isinstance(lo, int) and isinstance(hi, int) and hi - lo <= 4]
        last = None
        for combo in itertools.product(*[range(ranges[j][0], ranges[j][1]) for j in conc]):
            idx = []
            hs = list(hyps)
            ci = iter(combo)
            for j, (lo, hi) in enumerate(ranges):
                if j in conc:
                    idx.append(next(ci))
                    continue
                v = self.c.fresh(f"k{j}", "int")
                idx.append(wrap(v))
                hs += [v >= to_int(lo), v < to_int(hi)]
                self.c.watch(f"{name}.idx{j}", v)
            goal = pred(tuple(idx))
            if isinstance(goal, bool):
                goal = z3.BoolVal(goal)
            nm = name if not combo else f"{name}[{','.join(map(str, combo))}]"
            last = self.c.prove(nm, goal, kind=kind, hyps=hs, detail=detail)
        return last

    def sum1(self, tag, lo, hi, f):
        """Sum_{lo <= j < hi} f(j)"""
        return self.sum([(tag, lo, hi)], lambda idx: f(idx[0]))

    def lemma_sum_ext(self, name, lo, hi, f, g, using=None):
        """SUM-EXT: pointwise equal on [lo,hi)  =>  equal sums.  `using(j)` may add instances of
        already established universal facts at the Skolem index before the premise is proved."""
        if using is None:
            self.forall_range(f"{name}.pointwise", [(lo, hi)], lambda idx: self.num_eq(f(idx[0]), g(idx[0])), kind="lemma-premise")
        else:
            j = self.fresh_int("ext_j", lo, hi)
            using(j)
            self.prove(f"{name}.pointwise", self.num_eq(f(j), g(j)), kind="lemma-premise")
        self.c.assume(to_real(self.sum1("e", lo, hi, f)) == to_real(self.sum1("e", lo, hi, g)), why="SUM-EXT")

    def lemma_tri_unique(self, name, n, row_x, row_y, diag_nonzero, x, y):
        """TRI-UNIQUE: two solutions of a lower-triangular system with non-zero diagonal agree.
        row_x(k), row_y(k): the k-th row equation for x resp. y (may apply further lemmas).
        Returns agree(k): adds the conclusion x(k) == y(k) for an index term k (valid for 0 <= k < n)."""
        k = self.fresh_int("tu_k", 0, n)
        self.prove(f"{name}.rows_hold_for_first", row_x(k), kind="lemma-premise")
        k = self.fresh_int("tu_k", 0, n)
        self.prove(f"{name}.rows_hold_for_second", row_y(k), kind="lemma-premise")
        k = self.fresh_int("tu_k", 0, n)
        self.prove(f"{name}.nonzero_diagonal", diag_nonzero(k), kind="lemma-premise")

        def agree(k):
            self.c.assume(z3.Implies(z3.And(to_int(k) >= 0, to_int(k) < to_int(n)), to_real(x(k)) == to_real(y(k))), why="TRI-UNIQUE")

        return agree

    def lemma_sum_delta(self, name, lo, hi, t, X):
        """SUM-DELTA: Sum_j [j == t] * X = X for lo <= t < hi"""
        self.prove(f"{name}.in_range", wrap(z3.And(to_int(t) >= to_int(lo), to_int(t) < to_int(hi))), kind="lemma-premise")
        s = self.sum1("d", lo, hi, lambda j: core.site(j == t, X, 0))
        self.c.assume(to_real(s) == to_real(X), why="SUM-DELTA")
        return s

    def lemma_sum_zero(self, name, lo, hi, f):
        self.forall_range(f"{name}.pointwise_zero", [(lo, hi)], lambda idx: self.num_eq(f(idx[0]), 0), kind="lemma-premise")
        self.c.assume(to_real(self.sum1("z", lo, hi, f)) == 0, why="SUM-ZERO")

    def lemma_sum_split(self, name, lo, mid, hi, f):
        self.prove(f"{name}.ordered", wrap(z3.And(to_int(lo) <= to_int(mid), to_int(mid) <= to_int(hi))), kind="lemma-premise")
        self.c.assume(to_real(self.sum1("s", lo, hi, f)) == to_real(self.sum1("s", lo, mid, f)) + to_real(self.sum1("s", mid, hi, f)), why="SUM-SPLIT")

    def lemma_sum_unfold_last(self, name, lo, hi, f):
        self.prove(f"{name}.nonempty", wrap(to_int(hi) > to_int(lo)), kind="lemma-premise")
        self.c.assume(to_real(self.sum1("u", lo, hi, f)) == to_real(self.sum1("u", lo, hi - 1, f)) + to_real(f(hi - 1)), why="SUM-UNFOLD")

    def lemma_telescope(self, name, lo, hi, G):
        """TELESCOPE: Sum_{lo<=k<hi} (G(k-1) - G(k)) = G(lo-1) - G(hi-1)   (lo <= hi)"""
        self.prove(f"{name}.ordered", wrap(to_int(lo) <= to_int(hi)), kind="lemma-premise")
        s = self.sum1("t", lo, hi, lambda k: G(k - 1) - G(k))
        self.c.assume(to_real(s) == to_real(G(lo - 1)) - to_real(G(hi - 1)), why="TELESCOPE")

    def lemma_sum_nonneg(self, name, lo, hi, f):
        self.forall_range(f"{name}.pointwise_nonneg", [(lo, hi)], lambda idx: wrap(to_real(f(idx[0])) >= 0), kind="lemma-premise")
        self.c.assume(to_real(self.sum1("n", lo, hi, f)) >= 0, why="SUM-NONNEG")

    def ite(self, c, a, b):
        return core.site(c, a, b)

    def b_and(self, *xs):
        return core.sand(*xs)

    def b_or(self, *xs):
        return core.sor(*xs)

    def b_not(self, x):
        return core.snot(x)

    def implies(self, a, b):
        return core.simplies(a, b)

    def elem(self, arr, idx):
        """element of an ndarray-like at index tuple"""
        if isinstance(arr, symnp.SymArr):
            return wrap(arr.at(*idx))
        if isinstance(arr, (SymReal, SymInt)):
            return arr
        if isinstance(arr, _np.ndarray):
            return symnp.as_symarr(arr).elem(*idx)
        return arr

    def shape_of(self, arr):
        return tuple(arr.shape)

    def size_eq(self, a, b):
        return wrap(to_int(a) == to_int(b))

    def buffer_id(self, arr):
        if isinstance(arr, symnp.SymArr):
            return ("sym", arr._buf.id)
        return ("np", id(arr))

    def buffer_version(self, arr):
        if isinstance(arr, symnp.SymArr):
            return arr._buf.version
        return None

    def is_ndarray(self, v):
        return isinstance(v, _np.ndarray)

    def watch(self, label, term):
        self.c.watch(label, term)


class ConcWorld(BaseWorld):
    """Concrete world. `sizes`: dict letter -> int; values from `fill` (callable name, idx -> float)
    or pseudo-random small integers."""

    symbolic = False

    def __init__(self, sizes=None, seed=0, fill=None, default_size=2, positions=None, subsets=None):
        super().__init__()
        self.positions = dict(positions or {})
        self.subsets = dict(subsets or {})
        self.sizes = dict(sizes or {})
        self.rng = random.Random(seed)
        # awkward modes are chosen by the run index (seed modulo 1000), so that every check runs the same modes
        # whatever base seed it is given: run 1 of the quick tier is always 'equal sizes + integer driver'
        k = seed % 1000
        self.big = k % 4 == 3  # larger dimensions
        # entries of tiny magnitude (data in a large unit): absolute tolerances hidden in the code under test show
        # up there; the comparison tolerance of the contracts scales along
        self.scale = 2.0**-33 if k % 5 == 4 else 1.0  # (a power of two: scaling stays exact in binary floating point)
        # integer-typed driver arrays for the stock models (nothing may be truncated)
        self.int_driver = k % 3 == 1
        # all dimensions of the same length (a positional mix-up cannot hide behind a shape error); dimensions
        # that share items (bare keys become ambiguous)
        self.square = k % 2 == 1
        self._square_n = None
        self.shared_items = k % 7 == 5
        self._n_dims_made = 0
        self.fill = fill
        self.default_size = default_size
        self.checked = 0
        self.inputs = {}
        self._used_sizes = {}

    def used_sizes(self):
        return dict(self._used_sizes)

    def _shims(self):
        return _np.errstate(all="ignore")

    def dim(self, letter, name=None, lo=1, n=None, tag=None, numeric_ok=False):
        """numeric_ok: the unit treats items as opaque labels -- on the odd runs they are numbers stored in
        descending order (years or ages as they come from a file; nothing may sort them or take them for positions)"""
        from flodym.dimensions import Dimension

        tag = tag or letter
        if n is None:
            n = self.sizes.get(tag) or self._used_sizes.get(tag)
        if n is None:
            if self.square and self.default_size is None:
                if self._square_n is None:
                    self._square_n = self.rng.choice([4, 5] if self.big else [2, 3])
                n = max(lo, self._square_n)
            else:
                n = max(lo, self.rng.choice([4, 5, 6] if self.big else [1, 2, 3]) if self.default_size is None else self.default_size)
        n = max(int(n), lo)
        self._used_sizes[tag] = n
        name = name or f"Dim{letter.upper()}{letter}"
        k = sum(map(ord, tag))  # stable per dimension tag: the same dimension made twice has the same items
        if numeric_ok and self.square and not self.shared_items:
            base = 1000 * (1 + k % 9)
            vals = [base + 10 * j for j in range(n)][::-1]
            if k % 2:
                vals = [v + 0.5 for v in vals]
            self.inputs.setdefault("numeric_items_in_descending_order", []).append(tag)
            return Dimension(name=name, letter=letter, items=vals)
        if self.shared_items:
            # overlapping item pools: dimension k holds it<k%2> .. : some items occur in several dimensions, some do not
            return Dimension(name=name, letter=letter, items=[f"it{j + (k % 2)}" for j in range(n)])
        return Dimension(name=name, letter=letter, items=[f"{tag}{j}" for j in range(n)])

    def array(self, name, dims, cls=None, int_ok=False):
        from flodym.flodym_arrays import FlodymArray
        from flodym.dimensions import DimensionSet

        cls = cls or FlodymArray
        shape = tuple(len(d.items) for d in dims)
        vals = self.ndarray(name, shape)
        if self.square and len(shape) >= 2:
            # same logical array, column-major memory layout (nothing may depend on contiguity or memory order)
            vals = _np.asfortranarray(vals)
            self.inputs.setdefault("column_major", []).append(name)
        if int_ok and self.int_driver and self.fill is None:
            # an operand that is only read: whole numbers in an integer-typed array on the 'integer' runs
            vals = _np.round(vals * 4).astype(_np.int64)
            self.inputs[name] = vals.tolist()
            self.inputs.setdefault("integer_typed", []).append(name)
        return cls(dims=DimensionSet(dim_list=list(dims)), values=vals, name=name)

    def number(self, name):
        if self.fill is not None:
            v = self.fill(name, ())
            if v is not None:
                self.inputs[name] = v
                return float(v)
        v = float(self.rng.choice([-3, -2, 2, 3, 5]))
        if self.int_driver:
            v += 0.5  # a number with a fractional part next to integer-typed arrays
        self.inputs[name] = v
        if self.square:
            # on the odd runs plain numbers are numpy scalars (what x.sum_values(), values.max() or np.sum give):
            # still numbers, but numpy's own operators get the first say when they stand on the left
            self.inputs.setdefault("numpy_scalar_numbers", []).append(name)
            return _np.float64(v)
        return v

    def ndarray(self, name, shape, kind="real"):
        shape = tuple(int(s) for s in shape)
        a = _np.zeros(shape, dtype=float)
        for idx in _np.ndindex(*shape):
            v = None
            if self.fill is not None:
                v = self.fill(name, idx)
            if v is None:
                v = (float(self.rng.randint(-9, 9)) + self.rng.choice([0.0, 0.5, 0.25])) * self.scale
            a[idx] = v
        self.inputs[name] = a.tolist()
        return a

    def fresh_int(self, name, lo=None, hi=None):
        lo = 0 if lo is None else int(lo)
        hi = lo + 3 if hi is None else int(hi)
        return self.rng.randrange(lo, max(hi, lo + 1))

    # items / labels
    def item_in(self, dim, tag):
        n = len(dim.items)
        p = self.positions.get(tag)
        if p is None or not (0 <= p < n):
            p = self.rng.randrange(n)
        self.inputs.setdefault("_positions", {})[tag] = p
        return dim.items[p], p

    def foreign_item(self, tag, dims):
        return f"foreign_{tag}"

    def _choose_positions(self, parent_items, tag, subset=True):
        n = len(parent_items)
        pos = self.subsets.get(tag)
        if pos is not None and all(isinstance(p, int) and 0 <= p < n for p in pos) and len(set(pos)) == len(pos) and pos:
            return list(pos)
        m = self.sizes.get(tag)
        if m is None or not (1 <= m <= n):
            m = self.rng.randint(1, n)
        pos = list(range(n))
        self.rng.shuffle(pos)
        return pos[:m]

    def subset_dim(self, parent, letter, tag, name=None, subset=True):
        from flodym.dimensions import Dimension

        pos = self._choose_positions(parent.items, tag)
        items = [parent.items[p] for p in pos]
        if not subset:
            items = items + [f"notin_{tag}"]
        self._used_sizes[tag] = len(items)
        self.inputs.setdefault("_subsets", {})[tag] = pos
        return Dimension(name=name or f"Sub{tag}", letter=letter, items=items)

    def item_list(self, parent, tag):
        pos = self._choose_positions(parent.items, tag)
        self._used_sizes[tag] = len(pos)
        self.inputs.setdefault("_subsets", {})[tag] = pos
        return [parent.items[p] for p in pos]

    def item_at(self, items, j):
        return items[int(j)]

    def index_in(self, items, item):
        if item in items:
            return True, list(items).index(item)
        return False, 0

    def items_len(self, items):
        return len(items)

    def assume(self, cond, why=None):
        if not bool(cond):
            raise core.PathInfeasible()

    def _fail(self, name, detail):
        # the evaluation goes on after a failing clause (so that the clauses of every property of a shared unit get
        # their verdict); the run reports all of them at its end
        if not hasattr(self, "failures"):
            self.failures = []
        self.failures.append((name, str(detail)))
        if len(self.failures) > 200:
            raise ContractViolation(self.failures[0][0], self.failures[0][1])

    def prove(self, name, cond, kind="post", hyps=(), detail=""):
        self.checked += 1
        if all(bool(h) for h in hyps) and not bool(cond):
            self._fail(name, detail)

    def cover(self, name, cond=True):
        pass

    def div(self, a, b):
        a, b = float(a), float(b)
        if b == 0:
            return float("nan")
        return a / b

    def num_eq(self, a, b):
        a, b = float(a), float(b)
        if math.isnan(a) or math.isnan(b):
            return math.isnan(a) and math.isnan(b)
        if math.isinf(a) or math.isinf(b):
            return a == b
        return abs(a - b) <= 1e-9 * (self.scale + abs(a) + abs(b))

    def sum(self, ranges, body):
        tot = 0.0
        for idx in itertools.product(*[range(int(lo), int(hi)) for _, lo, hi in ranges]):
            tot += body(list(idx))
        return tot

    def forall(self, name, sizes, pred, kind="post", detail=""):
        self.checked += 1
        for idx in itertools.product(*[range(int(n)) for n in sizes]):
            if not bool(pred(tuple(idx))):
                self._fail(name, f"{detail} at index {idx}")
                return


    def forall_range(self, name, ranges, pred, kind="post", detail="", hyps=()):
        self.checked += 1
        if not all(bool(h) for h in hyps):
            return
        for idx in itertools.product(*[range(int(lo), int(hi)) for lo, hi in ranges]):
            if not bool(pred(tuple(idx))):
                self._fail(name, f"{detail} at index {idx}")
                return

    def sum1(self, tag, lo, hi, f):
        return self.sum([(tag, lo, hi)], lambda idx: f(idx[0]))

    def lemma_sum_ext(self, name, lo, hi, f, g, using=None):
        self.forall_range(f"{name}.pointwise", [(lo, hi)], lambda idx: self.num_eq(f(idx[0]), g(idx[0])))

    def lemma_tri_unique(self, name, n, row_x, row_y, diag_nonzero, x, y):
        self.forall_range(f"{name}.rows_hold_for_first", [(0, n)], lambda idx: row_x(idx[0]))
        self.forall_range(f"{name}.rows_hold_for_second", [(0, n)], lambda idx: row_y(idx[0]))
        return lambda k: None

    def lemma_sum_delta(self, name, lo, hi, t, X):
        self.prove(f"{name}.in_range", int(lo) <= int(t) < int(hi))
        return X

    def lemma_sum_zero(self, name, lo, hi, f):
        self.forall_range(f"{name}.pointwise_zero", [(lo, hi)], lambda idx: self.num_eq(f(idx[0]), 0))

    def lemma_sum_split(self, name, lo, mid, hi, f):
        self.prove(f"{name}.ordered", int(lo) <= int(mid) <= int(hi))

    def lemma_sum_unfold_last(self, name, lo, hi, f):
        self.prove(f"{name}.nonempty", int(hi) > int(lo))

    def lemma_telescope(self, name, lo, hi, G):
        self.prove(f"{name}.ordered", int(lo) <= int(hi))

    def lemma_sum_nonneg(self, name, lo, hi, f):
        self.forall_range(f"{name}.pointwise_nonneg", [(lo, hi)], lambda idx: float(f(idx[0])) >= -1e-12)

    def ite(self, c, a, b):
        return a if bool(c) else b

    def b_and(self, *xs):
        return all(bool(x) for x in xs)

    def b_or(self, *xs):
        return any(bool(x) for x in xs)

    def b_not(self, x):
        return not bool(x)

    def implies(self, a, b):
        return (not bool(a)) or bool(b)

    def elem(self, arr, idx):
        if isinstance(arr, _np.ndarray):
            return arr[tuple(int(i) for i in idx)] if arr.ndim else arr[()]
        return arr

    def shape_of(self, arr):
        return tuple(arr.shape)

    def size_eq(self, a, b):
        return int(a) == int(b)

    def buffer_id(self, arr):
        base = arr
        while getattr(base, "base", None) is not None:
            base = base.base
        return ("np", id(base))

    def buffer_version(self, arr):
        return None

    def is_ndarray(self, v):
        return isinstance(v, _np.ndarray)

    def watch(self, label, term):
        pass
