"""Verification units: one contract obligation family for one real function, enumerated over
skeletons (rank / letter overlap / storage order / key form), proved symbolically per skeleton.
"""
from __future__ import annotations

import hashlib
import importlib
import inspect

UNITS = {}


class Unit:
    def __init__(self, name, props, targets, run, skeletons, expect="proved", note="", inlined=(), stubs=(), mode="proof", not_clauses=None, only_clauses=None):
        self.not_clauses = dict(not_clauses or {})  # property -> obligation-name globs that are context, not clauses of it
        self.only_clauses = dict(only_clauses or {})  # property -> the only obligation-name globs that are clauses of it
        self.mode = mode  # 'proof' (symbolic obligations) | 'bounded' (concrete contract evaluation only; never counted as proved)
        self.name = name
        self.props = list(props)
        self.targets = list(targets)  # qualified names of real functions under contract here
        self.run = run  # run(W, skeleton)
        self.skeletons = skeletons  # skeletons(tier) -> iterable of json-able skeletons
        self.expect = expect  # 'proved' | 'refuted' (must-fail vacuity guard)
        self.note = note
        self.inlined = list(inlined)  # uncontracted helpers executed through their bodies
        self.stubs = list(stubs)  # callee contracts used instead of bodies


def unit(name, props, targets, skeletons, expect="proved", note="", inlined=(), stubs=(), mode="proof", not_clauses=None, only_clauses=None):
    def deco(fn):
        if name in UNITS:
            raise RuntimeError(f"duplicate unit {name}")
        UNITS[name] = Unit(name, props, targets, fn, skeletons, expect, note, inlined, stubs, mode, not_clauses, only_clauses)
        return fn

    return deco


def resolve(qualname):
    """'flodym.dimensions.DimensionSet.union_with' -> object (raises if missing)"""
    parts = qualname.split(".")
    for i in range(len(parts), 0, -1):
        try:
            mod = importlib.import_module(".".join(parts[:i]))
        except ImportError:
            continue
        obj = mod
        for p in parts[i:]:
            obj = inspect.getattr_static(obj, p) if inspect.isclass(obj) else getattr(obj, p)
        return obj
    raise ImportError(qualname)


def source_hash(qualname):
    obj = resolve(qualname)
    for attr in ("fget", "__func__", "__wrapped__"):
        inner = getattr(obj, attr, None)
        if inner is not None and not inspect.isclass(obj):
            obj = inner
    try:
        src = inspect.getsource(obj)
    except (TypeError, OSError):
        src = repr(obj)
    return hashlib.sha256(src.encode()).hexdigest()[:16]


def load_all():
    for m in ("dimensions", "arrays", "indexing", "stocks", "lifetime", "system", "builders", "lemmas", "tables", "export"):
        try:
            importlib.import_module(f"contracts.{m}")
        except ModuleNotFoundError as e:
            if f"contracts.{m}" not in str(e):
                raise
