"""Builders for symbolic flodym objects (inputs of a function under proof), and the harness that
injects the numpy / builtins shims into flodym's module namespaces (no file in /repo is edited).
"""
from __future__ import annotations

import contextlib
import importlib
import itertools
import z3

from . import core, symnp
from .core import SymInt, SymBool, ctx, wrap, to_int

FLODYM_MODULES = [
    "flodym.dimensions",
    "flodym.flodym_arrays",
    "flodym.flodym_array_helper",
    "flodym.stocks",
    "flodym.lifetime_models",
    "flodym.mfa_system",
    "flodym.processes",
    "flodym.flow_helper",
    "flodym.stock_helper",
    "flodym.flow_naming",
    "flodym.mfa_definition",
    "flodym.export.array_plotter",
    "flodym.export.sankey",
    "flodym.export.data_writer",
    "flodym._df_to_flodym_array",
]


@contextlib.contextmanager
def shims(extra=None):
    """Install `np` and builtins shims into flodym module globals for the duration of a run."""
    saved = []
    mods = [importlib.import_module(m) for m in FLODYM_MODULES]
    try:
        for m in mods:
            d = m.__dict__
            if "np" in d:
                saved.append((d, "np", d["np"]))
                d["np"] = symnp.NP
            from . import symtable

            if d.get("itertools") is itertools:
                saved.append((d, "itertools", d["itertools"]))
                d["itertools"] = symtable.FakeItertools()
            for name, val in list(d.items()):
                if val is itertools.product:  # from itertools import product [as ...]
                    saved.append((d, name, val))
                    d[name] = symtable.FakeItertools().product
            for name, fn in symnp.BUILTIN_SHIMS.items():
                saved.append((d, name, d.get(name, _MISSING)))
                d[name] = fn
            for name, fn in (extra or {}).get(m.__name__, {}).items():
                saved.append((d, name, d.get(name, _MISSING)))
                d[name] = fn
        yield
    finally:
        for d, name, old in reversed(saved):
            if old is _MISSING:
                d.pop(name, None)
            else:
                d[name] = old


_MISSING = object()

# ----------------------------------------------------------------------------------------
# items: abstract atoms. An item is an integer id in one global universe.

_item_ids = itertools.count()


class Item:
    """Abstract item (label) value with symbolic identity."""

    __slots__ = ("e", "name")

    def __init__(self, e, name=None):
        self.e = e
        self.name = name

    def __eq__(self, o):
        if isinstance(o, Item):
            return wrap(self.e == o.e)
        return False

    def __ne__(self, o):
        if isinstance(o, Item):
            return wrap(self.e != o.e)
        return True

    def __hash__(self):
        return hash(self.name)

    def __repr__(self):
        return f"Item({self.e})"


class SymItemList:
    """list of pairwise distinct abstract items with symbolic length n >= lo.

    at(j): item id at position j;  pos(x): position of item id x (valid iff contained).
    Axiom (trigger on item_<name>(j)):  0 <= j < n  =>  pos(item(j)) == j   (items pairwise distinct).
    `subset_of(P)` facts are triggers on the same symbol."""

    def __init__(self, name, n=None, lo=1):
        self.name = name
        self.n = n if n is not None else core.sym_int(f"n_{name}", lo)
        self._at = z3.Function(f"item_{name}", z3.IntSort(), z3.IntSort())
        self._pos = z3.Function(f"pos_{name}", z3.IntSort(), z3.IntSort())
        zn = self.zn()
        at, pos = self._at, self._pos
        ctx().add_trigger(f"item_{name}", lambda j: z3.Implies(z3.And(j >= 0, j < zn), pos(at(j)) == j))
        self._subset_cache = {}

    def __symlen__(self):
        return self.n

    def __len__(self):
        if isinstance(self.n, int):
            return self.n
        raise core.Unsupported("len() of symbolic item list outside shimmed module")

    def zn(self):
        return to_int(self.n)

    def at_expr(self, j):
        return self._at(to_int(j))

    def contains_expr(self, x):
        p = self._pos(x)
        return z3.And(p >= 0, p < self.zn(), self._at(p) == x)

    def __contains__(self, item):
        if not isinstance(item, Item):
            return False
        return bool(wrap(self.contains_expr(item.e)))

    def index(self, item):
        if not isinstance(item, Item) or not bool(wrap(self.contains_expr(item.e))):
            raise ValueError(f"{item!r} is not in list")
        return wrap(self._pos(item.e))

    def __getitem__(self, j):
        if isinstance(j, slice):
            raise core.Unsupported("slice of symbolic item list")
        if isinstance(j, int) and j < 0:
            j = self.n + j
        return Item(self.at_expr(j), f"{self.name}[{j}]")

    def __iter__(self):
        raise core.Unsupported("iteration over symbolic item list")

    def to_symarr(self):
        """np.array(items): a 1-d array of item ids (kind int), marked as an array of labels"""
        from . import symnp

        at = self._at
        a = symnp.SymArr.fresh((self.n,), lambda idx: at(to_int(idx[0])), "int", origin="items:" + self.name)
        return a

    def assume_subset_of(self, other):
        """precondition: every item of self is an item of other"""
        zn = self.zn()
        at = self._at
        ctx().add_trigger(f"item_{self.name}", lambda j: z3.Implies(z3.And(j >= 0, j < zn), other.contains_expr(at(j))))
        self._subset_cache[id(other)] = True

    def subset_of(self, other):
        """-> bool / SymBool: all items of self are in other (decided once per pair and path)"""
        if not isinstance(other, SymItemList):
            raise core.Unsupported("subset test against a non-symbolic item list")
        if other is self:
            return True
        k = id(other)
        if k in self._subset_cache:
            return self._subset_cache[k]
        c = ctx()
        b = c.fresh(f"subset_{self.name}_{other.name}", "bool")
        w = c.fresh(f"w_{self.name}", "int")
        zn = self.zn()
        at = self._at
        c.add_trigger(f"item_{self.name}", lambda j: z3.Implies(z3.And(b, j >= 0, j < zn), other.contains_expr(at(j))))
        c.assume(z3.Implies(z3.Not(b), z3.And(w >= 0, w < zn, z3.Not(other.contains_expr(at(w))))))
        r = wrap(b)
        self._subset_cache[k] = r
        return r

    def __deepcopy__(self, memo):
        return self

    def __copy__(self):
        return self

    def __eq__(self, o):
        """list equality: same length and the same item at every position.  Decided symbolically (the path forks):
        E => lengths equal and items agree wherever either list is read;  not E => lengths differ or a witness
        position holds different items"""
        if o is self:
            return True
        if not isinstance(o, SymItemList):
            if isinstance(o, (list, tuple)) and len(o) == 0:
                return bool(wrap(self.zn() == 0))
            if isinstance(o, (list, tuple)):
                raise core.Unsupported("comparison of a symbolic item list with a concrete list")
            return False
        c = ctx()
        cache = c.__dict__.setdefault("_itemlist_eq", {})
        key = tuple(sorted((id(self), id(o))))
        if key not in cache:
            E = c.fresh(f"same_items_{self.name}_{o.name}", "bool")
            w = c.fresh(f"w_items_{self.name}_{o.name}", "int")
            na, nb = self.zn(), o.zn()
            a_at, b_at = self._at, o._at
            c.assume(z3.Implies(E, na == nb), why="equal lists have equal lengths")
            c.assume(z3.Implies(z3.Not(E), z3.Or(na != nb, z3.And(w >= 0, w < na, a_at(w) != b_at(w)))), why="unequal lists differ somewhere")
            fact = lambda j: z3.Implies(z3.And(E, j >= 0, j < na), a_at(j) == b_at(j))
            c.add_trigger(f"item_{self.name}", fact)
            c.add_trigger(f"item_{o.name}", fact)
            cache[key] = (E, self, o)  # (keep both lists alive: ids are the key)
        return bool(wrap(cache[key][0]))

    def __ne__(self, o):
        return not self.__eq__(o)

    def __hash__(self):
        return id(self)

    def __repr__(self):
        return f"SymItemList({self.name})"


class SymNumList:
    """list of numbers (e.g. calendar years) of symbolic length, strictly increasing:  y(0) < y(1) < ...
    supports the slices items[:-1], items[1:] (views) and np.array(view)."""

    def __init__(self, name, n, increasing=True, fn=None):
        self.name = name
        self.n = n
        if fn is None:
            f = z3.Function(f"y_{name}", z3.IntSort(), z3.RealSort())
            self.fn = lambda j: f(to_int(j))
            if increasing:
                zn = to_int(n)
                ctx().add_trigger(f"y_{name}", lambda j: z3.And(z3.Implies(z3.And(j >= 0, j + 1 < zn), f(j + 1) > f(j)), z3.Implies(z3.And(j >= 1, j < zn), f(j) > f(j - 1))))
        else:
            self.fn = fn

    def __symlen__(self):
        return self.n

    def __getitem__(self, k):
        if isinstance(k, slice):
            if k.step not in (None, 1):
                raise core.Unsupported("stepped slice of symbolic number list")
            lo = 0 if k.start is None else k.start
            hi = self.n if k.stop is None else k.stop
            if isinstance(lo, int) and lo < 0:
                lo = self.n + lo
            if isinstance(hi, int) and hi < 0:
                hi = self.n + hi
            base = self.fn
            return SymNumList(self.name, hi - lo, fn=(lambda j, lo=lo: base(to_int(j) + to_int(lo))))
        if isinstance(k, int) and k < 0:
            k = self.n + k
        return wrap(self.fn(k))

    def __iter__(self):
        raise core.Unsupported("iteration over symbolic number list")

    def to_symarr(self):
        from . import symnp

        fn = self.fn
        return symnp.SymArr.fresh((self.n,), lambda idx: fn(idx[0]))

    def __deepcopy__(self, memo):
        return self

    def __copy__(self):
        return self


def make_dimension(letter, name=None, n=None, lo=1, tag=None):
    from flodym.dimensions import Dimension

    name = name or f"Dim{letter.upper()}{letter}"
    items = SymItemList(tag or letter, n=n, lo=lo)
    return Dimension.model_construct(name=name, letter=letter, items=items, dtype=None)


def make_dimset(dims):
    from flodym.dimensions import DimensionSet

    return DimensionSet.model_construct(dim_list=list(dims))


def make_array(name, dims, cls=None, values=None):
    """FlodymArray over the Dimension objects `dims` (own DimensionSet, own list) with
    uninterpreted values  name(i1..ik)."""
    from flodym.flodym_arrays import FlodymArray

    cls = cls or FlodymArray
    ds = make_dimset(dims)
    shape = tuple(symnp.sh_len(d.items) for d in dims)
    if values is None:
        values = symnp.SymArr.input(name, shape)
    return cls.model_construct(dims=ds, values=values, name=name)


# ----------------------------------------------------------------------------------------
# mechanical rewriting of list comprehensions (the only source transformation the checker makes)

REWRITE_TARGETS = [
    "flodym.flodym_arrays.SubArrayHandler._set_ids_single_dim",
    "flodym._df_to_flodym_array.DataFrameToFlodymDataConverter._check_data_complete",
]


def rewrite_listcomps(fn):
    """Return a copy of `fn` in which every `[elt for x in it]` (one generator, no condition) is
    replaced by `__fvc_listcomp__(lambda x: elt, it)`.  Nothing else changes; for ordinary
    iterables the helper evaluates the very same comprehension."""
    import ast
    import inspect
    import textwrap

    src = textwrap.dedent(inspect.getsource(fn))
    tree = ast.parse(src)
    count = [0]

    class T(ast.NodeTransformer):
        def visit_ListComp(self, node):
            self.generic_visit(node)
            if len(node.generators) != 1:
                return node
            g = node.generators[0]
            if g.ifs or g.is_async or not isinstance(g.target, ast.Name):
                return node
            lam = ast.Lambda(
                args=ast.arguments(posonlyargs=[], args=[ast.arg(arg=g.target.id)], kwonlyargs=[], kw_defaults=[], defaults=[]),
                body=node.elt,
            )
            count[0] += 1
            return ast.copy_location(ast.Call(func=ast.Name(id="__fvc_listcomp__", ctx=ast.Load()), args=[lam, g.iter], keywords=[]), node)

        def visit_DictComp(self, node):
            # {k: v for <targets> in it}  ->  __fvc_dictcomp__(lambda <targets>: (k, v), it)
            self.generic_visit(node)
            if len(node.generators) != 1:
                return node
            g = node.generators[0]
            if g.ifs or g.is_async:
                return node
            if isinstance(g.target, ast.Name):
                names = [g.target.id]
            elif isinstance(g.target, ast.Tuple) and all(isinstance(e, ast.Name) for e in g.target.elts):
                names = [e.id for e in g.target.elts]
            else:
                return node
            lam = ast.Lambda(
                args=ast.arguments(posonlyargs=[], args=[ast.arg(arg=n) for n in names], kwonlyargs=[], kw_defaults=[], defaults=[]),
                body=ast.Tuple(elts=[node.key, node.value], ctx=ast.Load()),
            )
            count[0] += 1
            return ast.copy_location(ast.Call(func=ast.Name(id="__fvc_dictcomp__", ctx=ast.Load()), args=[lam, g.iter, ast.Constant(value=len(names))], keywords=[]), node)

    tree = T().visit(tree)
    ast.fix_missing_locations(tree)
    ns = {}
    code = compile(tree, filename=f"<fvc-rewrite of {fn.__qualname__}>", mode="exec")
    exec(code, fn.__globals__, ns)
    new = ns[fn.__name__]
    new.__qualname__ = fn.__qualname__
    new.__fvc_rewritten__ = count[0]
    return new


def rewrite_stubs():
    """(owner, attr, new) triples for harness._Stubs"""
    from . import units

    out = []
    for q in REWRITE_TARGETS:
        owner_q, attr = q.rsplit(".", 1)
        owner = units.resolve(owner_q)
        fn = getattr(owner, attr)
        out.append((owner, attr, rewrite_listcomps(fn)))
    return out


# ----------------------------------------------------------------------------------------
# hygiene: the symbolic executor must not leave symbolic objects in process-global state of the code under test


def _is_symbolic_obj(x, depth=0):
    mod = type(x).__module__ or ""
    if mod.startswith("fvc") or mod.startswith("z3"):
        return True
    if depth < 2:
        if isinstance(x, dict):
            return any(_is_symbolic_obj(v, depth + 1) or _is_symbolic_obj(k, depth + 1) for k, v in list(x.items()))
        if isinstance(x, (list, tuple, set)):
            return any(_is_symbolic_obj(v, depth + 1) for v in list(x))
    return False


def scrub_symbolic_leftovers():
    """mutable default arguments of flodym functions that hold symbolic objects after a symbolic run (code that
    stores something in a default dict / list / set) are emptied of those objects: they are artefacts of the proxy
    execution and would crash the concrete runs that follow in the same process.  Concrete objects stay, so state the
    *code* carries from call to call remains visible to the concrete runs."""
    import importlib
    import inspect

    for mname in FLODYM_MODULES:
        try:
            mod = importlib.import_module(mname)
        except Exception:
            continue
        fns = []
        for _, obj in vars(mod).items():
            if inspect.isfunction(obj):
                fns.append(obj)
            elif inspect.isclass(obj) and getattr(obj, "__module__", None) == mname:
                for _, m in vars(obj).items():
                    f = getattr(m, "__func__", None) or getattr(m, "fget", None) or m
                    if inspect.isfunction(f):
                        fns.append(f)
        for f in fns:
            for d in list(f.__defaults__ or ()) + list((f.__kwdefaults__ or {}).values()):
                if isinstance(d, dict):
                    for k in [k for k, v in list(d.items()) if _is_symbolic_obj(v) or _is_symbolic_obj(k)]:
                        del d[k]
                elif isinstance(d, list):
                    d[:] = [v for v in d if not _is_symbolic_obj(v)]
                elif isinstance(d, set):
                    for v in [v for v in list(d) if _is_symbolic_obj(v)]:
                        d.discard(v)
