"""Label-level specification helpers shared by the array contracts.

lab(x)(asg): the entry of x carrying the labels asg (letter -> position), independent of the order
in which x stores its dimensions.  marg(x, K): x summed over the letters not in K.
All helpers work in both worlds (symbolic terms / concrete floats).
"""
from __future__ import annotations

import numpy as _np

from . import core, symnp


class Lab:
    def __init__(self, W, letters, dims, fn):
        self.W = W
        self.letters = tuple(letters)
        self.dims = dict(dims)  # letter -> Dimension object
        self.fn = fn  # dict letter->index  ->  number

    def size(self, l):
        return self.W.size_of(self.dims[l])

    def at(self, asg):
        return self.fn(asg)

    def sizes(self):
        return [self.size(l) for l in self.letters]


def lab(W, fa) -> Lab:
    dl = list(fa.dims.dim_list)
    letters = tuple(d.letter for d in dl)
    vals = fa.values
    return Lab(W, letters, {d.letter: d for d in dl}, lambda asg: W.elem(vals, tuple(asg[l] for l in letters)))


def lab_of_values(W, vals, dims) -> Lab:
    """ndarray `vals` read as stored over the Dimension list `dims`"""
    letters = tuple(d.letter for d in dims)
    return Lab(W, letters, {d.letter: d for d in dims}, lambda asg: W.elem(vals, tuple(asg[l] for l in letters)))


def const(W, dims, c) -> Lab:
    letters = tuple(d.letter for d in dims)
    return Lab(W, letters, {d.letter: d for d in dims}, lambda asg: c)


def marg(L: Lab, K) -> Lab:
    K = tuple(K)
    rest = [l for l in L.letters if l not in K]
    W = L.W

    def fn(asg):
        if not rest:
            return L.at(asg)
        return W.sum([(l, 0, L.size(l)) for l in rest], lambda idx: L.at({**asg, **dict(zip(rest, idx))}))

    return Lab(W, K, {l: L.dims[l] for l in K}, fn)


def pointwise(op, A: Lab, B: Lab, letters, dims) -> Lab:
    return Lab(A.W, letters, dims, lambda asg: op(A.at(asg), B.at(asg)))


def relabel(L: Lab, letters) -> Lab:
    return Lab(L.W, letters, {l: L.dims[l] for l in letters}, L.fn)


# ----------------------------------------------------------------------------------------
# snapshots / frames / well-formedness


class ArraySnap:
    def __init__(self, W, fa):
        self.fa = fa
        self.dims = fa.dims
        self.lst = fa.dims.dim_list
        self.content = list(fa.dims.dim_list)
        self.values = fa.values
        self.W = W
        if isinstance(fa.values, symnp.SymArr):
            self.buf = fa.values._buf
            self.version = self.buf.version
            self.copy = None
        else:
            self.buf = None
            self.version = None
            self.copy = _np.array(fa.values, copy=True)


def snapshot(W, arrays):
    return [ArraySnap(W, a) for a in arrays]


def check_unchanged(W, name, snaps):
    for k, s in enumerate(snaps):
        fa = s.fa
        # (pydantic re-runs the after-validators of a model instance that is passed as a field value to
        #  another model -- e.g. an array handed to a Stock, Flow, plotter --, so `dims` may be replaced by an
        #  equal copy; what must not change is the view: the same Dimension objects in the same order)
        # (the list *object* may be replaced by an equal fresh one: pydantic re-runs DimensionSet's
        #  copy_dim_list validator on an empty -- falsy -- set passed to a constructor; the view is what counts)
        W.prove(
            f"{name}.frame[{k}].dim_list_content",
            len(fa.dims.dim_list) == len(s.content) and all(a is b for a, b in zip(fa.dims.dim_list, s.content)),
            kind="frame",
        )
        W.prove(f"{name}.frame[{k}].values_object", fa.values is s.values, kind="frame")
        if s.buf is not None:
            W.prove(f"{name}.frame[{k}].values_not_written", s.buf.version == s.version, kind="frame")
        else:
            same = isinstance(fa.values, _np.ndarray) and fa.values.shape == s.copy.shape and bool(_np.array_equal(fa.values, s.copy, equal_nan=True))
            W.prove(f"{name}.frame[{k}].values_not_written", same, kind="frame")


def buffers_of(W, arrays):
    return [W.buffer_id(a.values) for a in arrays]


def check_wf(W, name, fa, fresh_from=(), own_dims_from=()):
    """representation invariant of a FlodymArray result + independence from `fresh_from` arrays"""
    from flodym.flodym_arrays import FlodymArray
    from flodym.dimensions import DimensionSet

    ok = isinstance(fa, FlodymArray)
    W.prove(f"{name}.is_flodym_array", ok)
    if not ok:
        return False
    ok = isinstance(fa.dims, DimensionSet) and W.is_ndarray(fa.values)
    W.prove(f"{name}.wf.types", ok, detail=f"dims={type(fa.dims).__name__} values={type(fa.values).__name__}")
    if not ok:
        return False
    dl = list(fa.dims.dim_list)
    letters = [d.letter for d in dl]
    W.prove(f"{name}.wf.letters_unique", len(set(letters)) == len(letters))
    shp = W.shape_of(fa.values)
    ok = len(shp) == len(dl)
    W.prove(f"{name}.wf.rank", ok, detail=f"values rank {len(shp)} vs {len(dl)} dims")
    if not ok:
        return False
    for j, d in enumerate(dl):
        W.prove(f"{name}.wf.shape[{j}]", W.size_eq(shp[j], W.size_of(d)), detail=f"axis {j} ({d.letter})")
    for k, src in enumerate(own_dims_from):
        W.prove(f"{name}.own.dims_object[{k}]", fa.dims is not src.dims, kind="ownership")
        W.prove(f"{name}.own.dim_list[{k}]", fa.dims.dim_list is not src.dims.dim_list, kind="ownership")
    for k, src in enumerate(fresh_from):
        W.prove(f"{name}.own.values_buffer[{k}]", W.buffer_id(fa.values) != W.buffer_id(src.values), kind="ownership", detail="result shares memory with an input")
    return True


def check_same_array(W, name, out, expected: Lab, fresh_from=(), own_dims_from=(), hyp=None, require_fresh=True):
    """result (Outcome) must be a well-formed FlodymArray with expected letters, Dimension objects
    and entries.  hyp(asg) -> optional hypothesis under which the entry clause is claimed."""
    W.prove(f"{name}.returns", out.kind == "return", detail=repr(out))
    if out.kind != "return":
        return
    r = out.value
    if not check_wf(W, name, r, fresh_from if require_fresh else (), own_dims_from):
        return
    dl = list(r.dims.dim_list)
    letters = tuple(d.letter for d in dl)
    ok = letters == tuple(expected.letters)
    W.prove(f"{name}.letters", ok, detail=f"got {letters} want {expected.letters}")
    if not ok:
        return
    W.prove(f"{name}.dimension_objects", all(d is expected.dims[d.letter] for d in dl), detail="result must carry the operands' Dimension objects")
    rl = lab(W, r)

    def pred(idx):
        asg = dict(zip(letters, idx))
        goal = W.num_eq(rl.at(asg), expected.at(asg))
        if hyp is not None:
            h = hyp(asg)
            return core.simplies(h, goal) if W.symbolic else ((not h) or goal)
        return goal

    W.forall(f"{name}.entries", [expected.size(l) for l in letters], pred, detail="entry-wise equality with the label-level specification")


def check_same_values(W, name, vals, expected: Lab, hyp=None):
    """plain ndarray result stored in the order expected.letters"""
    ok = W.is_ndarray(vals) or (not expected.letters and isinstance(vals, (float, int, core.SymReal, _np.generic)))
    W.prove(f"{name}.is_ndarray", ok, detail=type(vals).__name__)
    if not ok:
        return
    if W.is_ndarray(vals):
        shp = W.shape_of(vals)
        ok = len(shp) == len(expected.letters)
        W.prove(f"{name}.rank", ok)
        if not ok:
            return
        for j, l in enumerate(expected.letters):
            W.prove(f"{name}.shape[{j}]", W.size_eq(shp[j], expected.size(l)))
    letters = expected.letters

    def pred(idx):
        asg = dict(zip(letters, idx))
        goal = W.num_eq(W.elem(vals, idx), expected.at(asg))
        if hyp is not None:
            h = hyp(asg)
            return core.simplies(h, goal) if W.symbolic else ((not h) or goal)
        return goal

    W.forall(f"{name}.entries", [expected.size(l) for l in letters], pred)


def check_raises(W, name, out, exc_type):
    nm = exc_type.__name__ if isinstance(exc_type, type) else "_or_".join(t.__name__ for t in exc_type)
    W.prove(f"{name}.raises_{nm}", out.kind == "raise" and isinstance(out.exc, exc_type), detail=repr(out))


def span_trap_grid(rng, n, start=2000):
    """an uneven grid of n >= 4 whole years whose total span is (n-1) times its *first* gap (so tests of evenness that
    look at the first gap and the span only take it for a regular grid)"""
    n = max(4, int(n))
    g = rng.choice([2, 3, 5])
    rest = [g] * (n - 2)
    i, j = rng.sample(range(n - 2), 2)
    d = rng.randrange(1, g)
    rest[i] -= d
    rest[j] += d
    items, y = [start], start
    for st in [g] + rest:
        y += st
        items.append(y)
    return items
