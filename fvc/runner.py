"""Job runner: proves every (unit, skeleton) of a property in a process pool, replays refuted
obligations natively, applies the known-findings file, writes evidence, sets the exit code.

exit 0  every obligation proved (must-fail guards refuted and replayed), cross-checks clean
exit 1  an obligation is refuted (VIOLATION line; replay file carries the failing input or the
        solver output and the words no-failing-input-found)
exit 2  undecided (solver unknown / code left the supported value model) and no failing input found
exit 3  checker crash, contract/sidecar mismatch, vacuity guard failed
"""
from __future__ import annotations

import json
import multiprocessing as mp
import os
import sys
import time
import traceback

from . import core, units, world
from .harness import SymWorld, ConcWorld, ContractViolation

VERIF = os.path.dirname(os.path.dirname(os.path.abspath(__file__)))

BOUNDED_SEEDS_QUICK = 12
BOUNDED_SEEDS_THOROUGH = 60
CONC_SEEDS_QUICK = 2
CONC_SEEDS_THOROUGH = 6
SEARCH_SEEDS = 40


def _extract_input_factory(W):
    import z3

    def hook(c, extra, model):
        # prefer a small model
        m = model
        for bound in (3, 5, 8):
            c.solver.push()
            try:
                for e in extra:
                    c.solver.add(e)
                for n in W.size_terms():
                    c.solver.add(n <= bound)
                if c.solver.check() == z3.sat:
                    m = c.solver.model()
                    break
            finally:
                c.solver.pop()
        return W.concretize(m)

    return hook


def run_job(job):
    """-> dict (json-able)"""
    uname, sk, tier, seed = job
    u = units.UNITS[uname]
    t0 = time.time()
    out = {
        "unit": uname,
        "skeleton": sk,
        "paths": 0,
        "obligations": [],
        "unsupported": [],
        "crash": None,
        "solver_s": 0.0,
        "checks": 0,
        "conc_runs": 0,
        "conc_fail": None,
    }
    if u.mode == "bounded":
        out["bounded"] = True
        n = BOUNDED_SEEDS_THOROUGH if tier == "thorough" else BOUNDED_SEEDS_QUICK
        try:
            for s in range(n):
                r = run_concrete(u, sk, seed=seed * 100000 + s)
                out["conc_runs"] += 1
                out["bounded_checked"] = out.get("bounded_checked", 0) + r.get("checked", 0)
                if r["status"] == "fail":
                    out["conc_fail"] = r
                    break
                if r["status"] == "crash":
                    out["crash"] = r["detail"]
                    break
        except Exception:
            out["crash"] = traceback.format_exc()
        out["wall_s"] = time.time() - t0
        return out
    try:

        def run(c):
            W = SymWorld(c)
            c.refute_hook = _extract_input_factory(W)
            u.run(W, sk)
            if u.expect == "proved":
                # vacuity guard: everything assumed on this path (preconditions, contract stubs, lemma
                # conclusions, path condition) must be jointly satisfiable
                c.cover("vacuity.path_assumptions_satisfiable")
            return None

        results = core.explore(run)
        world.scrub_symbolic_leftovers()
        for r in results:
            out["paths"] += 1
            out["solver_s"] += r.solver_time
            out["checks"] += r.n_checks
            if r.outcome[0] == "unsupported":
                out["unsupported"].append(r.outcome[1])
            for ob in r.obligations:
                out["obligations"].append(ob.to_json())
        # native replay of refuted obligations
        for ob in out["obligations"]:
            if ob["status"] == "refuted":
                ob["replay"] = replay_refuted(u, sk, ob)
        # CPython cross-check: the same contract evaluated concretely on the real code
        nseeds = CONC_SEEDS_THOROUGH if tier == "thorough" else CONC_SEEDS_QUICK
        need_search = bool(out["unsupported"]) or any(o["status"] == "undecided" for o in out["obligations"])
        if need_search:
            nseeds = SEARCH_SEEDS
        for s in range(nseeds):
            r = run_concrete(u, sk, seed=seed * 1000 + s)
            out["conc_runs"] += 1
            if r["status"] == "fail":
                out["conc_fail"] = r
                break
            if r["status"] == "crash":
                out["crash"] = r["detail"]
                break
    except Exception:
        out["crash"] = traceback.format_exc()
    out["wall_s"] = time.time() - t0
    return out


def run_concrete(u, sk, seed=0, sizes=None, values=None, numbers=None, positions=None, subsets=None):
    def fill(name, idx):
        if values and name in values:
            d = values[name]
            try:
                for i in idx:
                    d = d[i]
                return float(d)
            except (IndexError, TypeError):
                return None
        if numbers and name in numbers and idx == ():
            return float(numbers[name])
        return None

    W = ConcWorld(sizes=sizes, seed=seed, fill=fill if (values or numbers) else None, default_size=None, positions=positions, subsets=subsets)

    def failed(W_):
        fs = getattr(W_, "failures", [])
        return {"status": "fail", "obligation": fs[0][0], "detail": fs[0][1], "all_failures": fs[:40], "seed": seed, "inputs": W_.inputs, "sizes": W_.used_sizes()}

    try:
        try:
            u.run(W, sk)
        except ContractViolation:
            raise
        except core.PathInfeasible:
            raise
        except Exception:
            # an exception *after* a clause has failed is a consequence of that failure (the unit went on with a
            # result that is not what it should be): report the failed clauses
            if getattr(W, "failures", None):
                return failed(W)
            raise
        if getattr(W, "failures", None):
            return failed(W)
        checked = W.checked
        # the same scenario once more in the same process: state that survives a call (mutable default arguments,
        # module-level caches, memoised names) makes the second run differ from the first
        W = ConcWorld(sizes=sizes, seed=seed, fill=fill if (values or numbers) else None, default_size=None, positions=positions, subsets=subsets)
        W.inputs["history"] = "second run of the same scenario in the same process"
        try:
            u.run(W, sk)
        except (ContractViolation, core.PathInfeasible):
            raise
        except Exception:
            if getattr(W, "failures", None):
                return failed(W)
            raise
        if getattr(W, "failures", None):
            return failed(W)
        return {"status": "pass", "checked": checked, "inputs": None}
    except ContractViolation as v:
        return {"status": "fail", "obligation": v.name, "detail": v.detail, "seed": seed, "inputs": W.inputs, "sizes": W.used_sizes()}
    except core.PathInfeasible:
        return {"status": "pass", "checked": 0, "inputs": None}
    except Exception:
        return {"status": "crash", "detail": traceback.format_exc()}


def replay_refuted(u, sk, ob):
    """Replay the solver's counter-model on the real code; fall back to a directed search."""
    inp = (ob.get("model") or {}).get("input") if isinstance(ob.get("model"), dict) else None
    if inp:
        r = run_concrete(u, sk, seed=0, sizes=inp.get("sizes"), values=inp.get("values"), numbers=inp.get("numbers"), positions=inp.get("positions"), subsets=inp.get("subsets"))
        if r["status"] == "fail":
            return {"how": "solver-model", "result": r}
    for s in range(SEARCH_SEEDS):
        r = run_concrete(u, sk, seed=7919 + s)
        if r["status"] == "fail":
            return {"how": "directed-search", "result": r}
        if r["status"] == "crash":
            return {"how": "crash", "result": r}
    return {"how": "none", "result": None}


# ----------------------------------------------------------------------------------------


def load_known_findings():
    path = os.path.join(VERIF, "known_findings.txt")
    findings = []
    if os.path.exists(path):
        for line in open(path):
            line = line.strip()
            if not line or line.startswith("#") or line.startswith("fixed:"):
                continue
            if line.startswith("finding:"):
                rec = {"raw": line}
                for tok in line.split()[1:]:
                    if "=" in tok:
                        k, v = tok.split("=", 1)
                        if k in ("property", "unit", "obligation", "skeleton"):
                            rec[k] = v
                rec["what"] = line.split(" -- ", 1)[1] if " -- " in line else line
                findings.append(rec)
    return findings


# Cross-cutting properties share units with the functional properties.  An obligation of such a unit is a *clause*
# of the cross-cutting property only if it states that property (ownership / frame / well-formedness / refusal);
# the functional postconditions of the same unit (entries, letters, balances, loop invariants ...) are context:
# when they fail, the property that owns them reports the violation, and the cross-cutting check prints a NOTE.
CROSS_CUTTING = {
    "C15": {"kinds": {"ownership", "frame"}, "substr": [".own.", "unchanged", "untouched", "fresh", "independent", "copied", "not_written", "values_object", "same_list_object", "dim_list"]},
    "C13": {
        "kinds": {"frame"},
        "substr": [".wf.", "raises", "refused", "unchanged", "untouched", "keeps_model_shape", "is_flodym_array", "is_ndarray", ".rank", ".shape[", "accepted", "over_the_stock_dimensions", "tables_are_arrays", "is_dimset", "letters_unique", "not_written"],
    },
}


def is_clause(prop, unit, obname, kind):
    import fnmatch

    if any(fnmatch.fnmatch(obname, g) for g in unit.not_clauses.get(prop, ())):
        return False
    if prop in unit.only_clauses:
        return any(fnmatch.fnmatch(obname, g) for g in unit.only_clauses[prop])
    spec = CROSS_CUTTING.get(prop)
    if spec is None or set(unit.props) <= set(CROSS_CUTTING):
        return True
    return kind in spec["kinds"] or any(t in obname for t in spec["substr"])


def clause_failure(prop, unit, cf):
    """of the clauses that failed in a concrete run, the first one that is a clause of this property (or None)"""
    fs = cf.get("all_failures") or [(cf["obligation"], cf.get("detail", ""))]
    for nm, det in fs:
        if is_clause(prop, unit, nm, "concrete"):
            c = dict(cf)
            c["obligation"], c["detail"] = nm, det
            return c
    return None


def match_finding(findings, prop, uname, obname, sk):
    import fnmatch

    skid = sk_id(sk)
    for f in findings:
        if f.get("property") != prop:
            continue
        if f.get("unit") and not fnmatch.fnmatch(uname, f["unit"]):
            continue
        if f.get("obligation") and not fnmatch.fnmatch(obname, f["obligation"]):
            continue
        if f.get("skeleton") and not fnmatch.fnmatch(skid, f["skeleton"]):
            continue
        return f
    return None


def sk_id(sk):
    return json.dumps(sk, sort_keys=True, separators=(",", ":")).replace(" ", "")


def check_property(prop, tier="quick", seed=0, only_unit=None, jobs=None, verbose=False):
    t0 = time.time()
    os.environ["FVC_PROP"] = prop
    units.load_all()
    sel = [u for u in units.UNITS.values() if prop in u.props and (only_unit is None or u.name == only_unit)]
    if not sel:
        print(f"no verification units for {prop}")
        return 3
    # contract <-> code consistency
    fn_hashes = {}
    for u in sel:
        found = 0
        for t in u.targets + u.stubs + u.inlined:
            try:
                fn_hashes[t] = units.source_hash(t)
                found += 1
            except Exception as e:
                # a function named in the contract is gone (renamed, inlined or removed by a refactoring): the unit
                # still runs the code through its entry points and its obligations decide; said in the output and
                # in the evidence.  (If the unit's own harness needs the function it crashes below -> exit 3.)
                fn_hashes[t] = "not in the code any more"
                print(f"NOTE unit={u.name}: function {t} named in the contract is not in /repo any more ({e}); the unit runs through its remaining entry points")
        if not found and (u.targets + u.stubs + u.inlined):
            print(f"CONTRACT-MISMATCH unit={u.name}: none of the functions under contract exists in /repo")
            return 3
    joblist = []
    for u in sel:
        sks = list(u.skeletons(tier))
        if not sks:
            print(f"unit {u.name} has no skeletons in tier {tier}")
            return 3
        for sk in sks:
            joblist.append((u.name, sk, tier, seed))
    nproc = int(os.environ.get("FVC_PROCS", "16"))
    if nproc > 1 and len(joblist) > 1:
        ctxm = mp.get_context("fork")
        with ctxm.Pool(min(nproc, len(joblist))) as pool:
            results = pool.map(run_job, joblist, chunksize=1)
    else:
        results = [run_job(j) for j in joblist]

    if os.environ.get("FVC_DUMP_NAMES"):
        import re

        dump = {}
        for res in results:
            d = dump.setdefault(res["unit"], {})
            for o in res.get("obligations", []):
                d[re.sub(r"\[[^\]]*\]", "[*]", o["name"])] = o["kind"]
            if res.get("bounded_names"):
                for nm in res["bounded_names"]:
                    d[re.sub(r"\[[^\]]*\]", "[*]", nm)] = "bounded"
        json.dump(dump, open(os.environ["FVC_DUMP_NAMES"], "w"), indent=1)
    findings = load_known_findings()
    n_obl = n_dis = n_ref = n_und = n_clause = 0
    backends = {}
    solver_s = 0.0
    violations = []
    known_hits = []
    undecided = []
    crashes = []
    vacuity = {"covers": 0, "mustfail_units": 0, "mustfail_refuted_and_replayed": 0}
    per_fn = {}
    samples = []
    paths = 0
    conc_runs = 0
    per_unit = {}
    bounded = {"jobs": 0, "evaluations": 0, "contract_clauses_evaluated": 0, "units": set()}
    bounded_fail = []
    context_fail = []  # failing obligations that are not clauses of this (cross-cutting) property
    model_gaps = []  # obligations proved symbolically that fail on a concrete input (value model under-approximates)
    for res in results:
        u = units.UNITS[res["unit"]]
        paths += res["paths"]
        solver_s += res["solver_s"]
        conc_runs += res["conc_runs"]
        pu = per_unit.setdefault(u.name, {"skeletons": 0, "obligations": 0, "discharged": 0, "paths": 0})
        pu["skeletons"] += 1
        pu["paths"] += res["paths"]
        if res["crash"]:
            crashes.append((res["unit"], res["skeleton"], res["crash"]))
            continue
        if res.get("bounded"):
            bounded["jobs"] += 1
            bounded["evaluations"] += res["conc_runs"]
            bounded["contract_clauses_evaluated"] += res.get("bounded_checked", 0)
            bounded["units"].add(u.name)
            if res.get("conc_fail"):
                cf0 = res["conc_fail"]
                cf = clause_failure(prop, u, cf0)
                if cf is None:
                    context_fail.append((res["unit"], cf0["obligation"]))
                    continue
                f = match_finding(findings, prop, res["unit"], cf["obligation"], res["skeleton"])
                if f:
                    known_hits.append((f, res["unit"], cf["obligation"], res["skeleton"]))
                else:
                    bounded_fail.append((res["unit"], res["skeleton"], cf))
            continue
        if u.expect == "refuted":
            vacuity["mustfail_units"] += 1
            ok = any(o["status"] == "refuted" and (o.get("replay") or {}).get("how") in ("solver-model", "directed-search") for o in res["obligations"])
            if ok:
                vacuity["mustfail_refuted_and_replayed"] += 1
            elif res["unsupported"]:
                # the guard could not be executed on this code (an operation outside the value model): nothing is known
                # about vacuity either way -> undecided, not a checker error
                undecided.append((res["unit"], res["skeleton"], "must-fail guard could not run: unsupported: " + "; ".join(sorted(set(res["unsupported"]))[:3]), None))
            else:
                crashes.append((res["unit"], res["skeleton"], "must-fail obligation was not refuted+replayed: engine or contract is vacuous"))
            continue
        if res["unsupported"]:
            undecided.append((res["unit"], res["skeleton"], "unsupported: " + "; ".join(sorted(set(res["unsupported"]))[:3]), res.get("conc_fail")))
        if not res["obligations"] and not res["unsupported"]:
            crashes.append((res["unit"], res["skeleton"], "zero obligations generated"))
        for o in res["obligations"]:
            if o["kind"] == "cover":
                vacuity["covers"] += 1
                if o["status"] == "refuted":
                    crashes.append((res["unit"], res["skeleton"], f"vacuity: cover {o['name']} is unsatisfiable (contradictory assumptions on path {o['path']})"))
                elif o["status"] == "undecided":
                    vacuity["covers_unknown"] = vacuity.get("covers_unknown", 0) + 1
                else:
                    vacuity["covers_sat"] = vacuity.get("covers_sat", 0) + 1
                continue
            n_obl += 1
            if is_clause(prop, u, o["name"], o["kind"]):
                n_clause += 1
            pu["obligations"] += 1
            backends[o["backend"]] = backends.get(o["backend"], 0) + 1
            if o["status"] == "proved":
                n_dis += 1
                pu["discharged"] += 1
            elif o["status"] == "refuted":
                n_ref += 1
                f = match_finding(findings, prop, res["unit"], o["name"], res["skeleton"])
                if f:
                    known_hits.append((f, res["unit"], o["name"], res["skeleton"]))
                elif not is_clause(prop, u, o["name"], o["kind"]):
                    context_fail.append((res["unit"], o["name"]))
                elif o.get("model_exc") and (o.get("replay") or {}).get("how") not in ("solver-model", "directed-search"):
                    # the failure follows an exception that the *value model* raised (not a raise statement of the code)
                    # and neither the solver's input nor the directed search makes the real code fail: the model's
                    # emulation, not the code, is what stopped -- undecided, not a violation
                    undecided.append((res["unit"], res["skeleton"], f"obligation {o['name']}: the value model raised {o['model_exc']} on this path; the real code does not fail on the solver's input or on {SEARCH_SEEDS} directed runs", None))
                else:
                    violations.append((res, o))
            else:
                n_und += 1
                if not is_clause(prop, u, o["name"], o["kind"]):
                    context_fail.append((res["unit"], o["name"]))
                else:
                    undecided.append((res["unit"], res["skeleton"], f"undecided obligation {o['name']}", res.get("conc_fail")))
            if len(samples) < 6 and o["status"] == "proved" and o["backend"] != "ground":
                samples.append({"unit": res["unit"], "skeleton": res["skeleton"], "obligation": o["name"], "path": o["path"], "status": o["status"], "backend": o["backend"]})
        if res.get("conc_fail") and not res["unsupported"] and not any(o["status"] in ("refuted", "undecided") and o["kind"] != "cover" and is_clause(prop, u, o["name"], o["kind"]) for o in res["obligations"]):
            # proved symbolically but the same contract fires on the real code for a concrete input: the input is a
            # demonstrated violation (reported as such); that the symbolic run did not see it means the value model
            # under-approximates this code path (reported as well, so that it gets repaired)
            cf0 = res["conc_fail"]
            cf = clause_failure(prop, u, cf0)
            if cf is None:
                context_fail.append((res["unit"], cf0["obligation"]))
            else:
                f = match_finding(findings, prop, res["unit"], cf["obligation"], res["skeleton"])
                if f:
                    known_hits.append((f, res["unit"], cf["obligation"], res["skeleton"]))
                else:
                    bounded_fail.append((res["unit"], res["skeleton"], cf))
                    model_gaps.append((res["unit"], res["skeleton"], cf["obligation"]))
    if not samples:
        for res in results:
            for o in res["obligations"][:2]:
                samples.append({"unit": res["unit"], "skeleton": res["skeleton"], "obligation": o["name"], "status": o["status"], "backend": o["backend"]})
            if len(samples) >= 4:
                break
    for u in sel:
        for t in u.targets:
            e = per_fn.setdefault(t, {"sha256_16": fn_hashes[t], "units": []})
            e["units"].append(u.name)

    REPLAYS = os.environ.get("FVC_REPLAY_DIR") or os.path.join(VERIF, "replays")
    EVID = os.environ.get("FVC_EVIDENCE_DIR") or os.path.join(VERIF, "evidence")
    os.makedirs(REPLAYS, exist_ok=True)
    os.makedirs(EVID, exist_ok=True)
    exit_code = 0
    lines = []
    seen_b = set()
    for uname, sk, cf in bounded_fail:
        if (uname, cf["obligation"]) in seen_b:
            continue
        seen_b.add((uname, cf["obligation"]))
        fname = "".join(ch if ch.isalnum() or ch in "._-" else "_" for ch in f"{prop}_{uname}_{cf['obligation']}")[:150]
        path = os.path.join(REPLAYS, fname + ".json")
        json.dump({"property": prop, "unit": uname, "skeleton": sk, "obligation": cf["obligation"], "bounded": True, "failing_input": cf, "verifier_output": "bounded run-time contract check failed on the real code"}, open(path, "w"), indent=1)
        lines.append(f"VIOLATION property={prop} replay={path}")
        exit_code = 1
    # a concrete failure found while an obligation was undecided is a demonstrated violation
    for uname, sk, why, cf in undecided:
        if cf:
            cf0 = cf
            cf = clause_failure(prop, units.UNITS[uname], cf0)
            if cf is None:
                context_fail.append((uname, cf0["obligation"]))
                continue
            f = match_finding(findings, prop, uname, cf["obligation"], sk)
            if f:
                known_hits.append((f, uname, cf["obligation"], sk))
                continue
            path = os.path.join(REPLAYS, f"{prop}_{uname}_{abs(hash(sk_id(sk))) % 10**8}.json")
            json.dump({"property": prop, "unit": uname, "skeleton": sk, "obligation": cf["obligation"], "why": why, "failing_input": cf, "verifier_output": why}, open(path, "w"), indent=1)
            lines.append(f"VIOLATION property={prop} replay={path}")
            exit_code = 1
    # one VIOLATION line per (unit, obligation): smallest skeleton with a failing input first
    groups = {}
    for res, o in violations:
        groups.setdefault((res["unit"], o["name"]), []).append((res, o))
    for (uname, obname), lst in sorted(groups.items()):
        def rank(ro):
            rp = ro[1].get("replay") or {}
            return (0 if rp.get("how") in ("solver-model", "directed-search") else 1, len(sk_id(ro[0]["skeleton"])))
        lst.sort(key=rank)
        res, o = lst[0]
        rp = o.get("replay") or {"how": "none"}
        fname = "".join(ch if ch.isalnum() or ch in "._-" else "_" for ch in f"{prop}_{uname}_{obname}")[:150]
        path = os.path.join(REPLAYS, fname + ".json")
        json.dump(
            {
                "property": prop,
                "unit": uname,
                "targets": units.UNITS[uname].targets,
                "skeleton": res["skeleton"],
                "obligation": obname,
                "path": o["path"],
                "solver_model": o.get("model"),
                "verifier_output": f"{o.get('backend', 'z3')}: sat (the negated obligation is satisfiable under the path condition) -- {o.get('detail') or ''}",
                "replay": rp,
                "failing_input_found": rp.get("how") in ("solver-model", "directed-search"),
                "also_fails_in_skeletons": [r["skeleton"] for r, _ in lst[1:60]],
                "n_skeletons_failing": len(lst),
            },
            open(path, "w"),
            indent=1,
        )
        suffix = "" if rp.get("how") in ("solver-model", "directed-search") else " no-failing-input-found"
        lines.append(f"VIOLATION property={prop} replay={path}{suffix}")
        exit_code = 1
    for uname, sk_, obname in model_gaps[:6]:
        lines.append(f"MODEL-GAP unit={uname} skeleton={sk_id(sk_)[:100]} obligation={obname}: discharged symbolically, fails on a concrete input of the real code (reported above as a violation with that input)")
    for uname, obname in sorted(set(context_fail))[:12]:
        lines.append(f"NOTE property={prop} unit={uname} obligation={obname} fails but is not a clause of {prop} (a functional postcondition of a shared unit; reported by the property that owns it)")
    shown = set()
    for f, uname, obname, sk in known_hits:
        if f["raw"] not in shown:
            shown.add(f["raw"])
            lines.append(f"KNOWN-FINDING: property={prop} {f['what']}")
    if crashes:
        exit_code = 3 if exit_code == 0 else exit_code
        for uname, sk, why in crashes[:10]:
            lines.append(f"CHECKER-ERROR unit={uname} skeleton={sk_id(sk)[:120]} :: {str(why)[-1500:]}")
    if exit_code == 0 and any(not cf for _, _, _, cf in undecided):
        exit_code = 2
    for uname, sk, why, cf in undecided[:10]:
        if not cf:
            lines.append(f"UNDECIDED unit={uname} skeleton={sk_id(sk)[:120]} :: {why}")

    assumptions = list(TRUSTED_BASE)
    for u in sel:
        if u.note:
            assumptions.append(f"{u.name}: {u.note}")
    bounded_only = n_obl == 0 and bounded["jobs"] > 0
    bsamples = []
    for res in results:
        if res.get("bounded") and len(bsamples) < 4:
            bsamples.append({"unit": res["unit"], "skeleton": res["skeleton"], "concrete_runs": res["conc_runs"], "contract_clauses_evaluated": res.get("bounded_checked", 0)})
    ev = {
        "property_id": prop,
        "tier": tier,
        "seed": seed,
        "level": "exploration" if bounded_only else "proof",
        "coverage": {
            "evaluations": bounded["evaluations"] + conc_runs,
            "distinct_nontrivial": sum(1 for res in results if res.get("bounded") and res.get("bounded_checked", 0) > 0),
            "rule": "bounded stand-in: one case = one (unit, skeleton) pair evaluated on seeded pseudo-random concrete inputs by running the real function and evaluating its contract; a pair counts as non-trivial when at least one contract clause was evaluated (measured); distinct pairs are counted once",
            "bounded_samples": bsamples,
            "obligations": n_obl,
            "discharged": n_dis,
            "refuted": n_ref,
            "refuted_known_findings": len(known_hits),
            "failing_obligations_owned_by_other_properties": len(set(context_fail)),
            "obligations_that_are_clauses_of_this_property": n_clause,
            "clause_rule": "units are contracts of functions and serve several properties; for the cross-cutting properties (C13, C15) and where a unit says so (not_clauses / only_clauses) only the obligations that state this property decide its verdict -- all obligations of the units are discharged and counted above",
            "undecided": n_und,
            "checker_cmd": f"./check {prop} --tier {tier}",
            "trusted_base": TRUSTED_BASE,
            "backends": backends,
            "solver_s": round(solver_s, 2),
            "skeleton_jobs": len(joblist),
            "paths_explored": paths,
            "functions_under_contract": per_fn,
            "callee_contracts_used_as_stubs": sorted({s for u in sel for s in u.stubs}),
            "inlined_uncontracted_helpers": sorted({s for u in sel for s in u.inlined}),
            "units": per_unit,
            "vacuity": vacuity,
            "cpython_crosscheck_runs": conc_runs,
            "bounded": {
                "note": "bounded run-time contract checks of functions outside the verifier's reach (pandas / data-dependent shapes); NOT counted in obligations/discharged",
                "units": sorted(bounded["units"]),
                "skeleton_jobs": bounded["jobs"],
                "evaluations": bounded["evaluations"],
                "contract_clauses_evaluated": bounded["contract_clauses_evaluated"],
                "bound": "sizes 1..6 per dimension, seeded pseudo-random entries",
            },
            "samples": (samples[:6] or bsamples or [{"note": "no sample"}]),
            "explanation": "obligations are generated on every run by executing the real functions of /repo/flodym on symbolic values (sizes, entries, items symbolic; rank/letter skeleton enumerated) and discharged by z3 (cvc5 on unknown)",
        },
        "assumptions": assumptions,
        "wall_s": round(time.time() - t0, 2),
        "violations": sum(1 for l in lines if l.startswith("VIOLATION")),
    }
    json.dump(ev, open(os.path.join(EVID, f"{prop}.json"), "w"), indent=1)
    for l in lines:
        print(l)
    print(f"{prop} [{tier}] units={len(sel)} jobs={len(joblist)} paths={paths} obligations={n_obl} discharged={n_dis} refuted={n_ref} (known {len(known_hits)}) undecided={n_und} solver={solver_s:.1f}s wall={time.time()-t0:.1f}s exit={exit_code}")
    return exit_code


TRUSTED_BASE = [
    "fvc engine (/verif/fvc): path explorer, symbolic scalars, SymArr tensor model, finite-sum normaliser (linearity, constant sum, Fubini order)",
    "z3 4.x/5.1 (unsat believed); cvc5 as second opinion on unknown",
    "primitive contracts of numpy operations as implemented in fvc/symnp.py (einsum, tile, basic/advanced indexing, ufuncs, reductions, view/copy rules); differential-tested against numpy by the CPython cross-check on every run (bounded)",
    "enumeration contracts: flatten() and pandas MultiIndex.from_product are the same C-order bijection between row numbers and index tuples when their extents agree (COrder); np.nonzero / np.argwhere enumerate exactly the selected index tuples, each once (SelOrder); row-level contracts of pandas DataFrame / set_index / reset_index / from_arrays and of the ~15 table operations of the importer's placement half (fvc/symtable.py) -- assumed, differential-tested against real pandas by the cross-check",
    "CPython semantics of everything that is not symbolic (pydantic construction/validation, containers, control flow) -- executed for real, not modelled",
    "np.allclose (flodym uses it only to decide whether to log a warning): quick tier -- one unconstrained answer per path, all call sites alike (histories in which two calls answer differently are explored by the thorough tier only); thorough tier -- exact all(isclose) per array contents, 'true => every entry close' not instantiated",
    "float arithmetic treated as real arithmetic (no rounding, overflow, inf, NaN unless a unit says so)",
    "rank / letter-overlap / storage-order / key-form skeletons are enumerated up to the stated bound; within a skeleton all sizes, entries and items are symbolic",
]
