"""fvc core: symbolic scalars, path exploration, obligations, finite-sum terms.

The executor is CPython itself: real flodym functions are *called* on symbolic proxy
values.  Whenever Python needs the truth value of a symbolic condition, `SymBool.__bool__`
asks the current path context which branch to follow; `explore()` re-runs the function until
every feasible decision sequence has been followed (exhaustive, not time-sampled).
Obligations (`prove`) are closed formulas  path-condition => goal  sent to z3.
"""
from __future__ import annotations

import fractions
import itertools
import numbers
import time
import os
import z3

# ----------------------------------------------------------------------------------------
# exceptions


class Unsupported(Exception):
    """The real code did something the symbolic value model cannot represent."""


class PathInfeasible(Exception):
    pass


class EngineError(Exception):
    pass


# ----------------------------------------------------------------------------------------
# context

_CTX = None
SOLVER_TIMEOUT_MS = 60000
COVER_TIMEOUT_MS = 8000
MAX_TRIGGER_DEPTH = 2  # facts produced by triggers are themselves scanned for new applications this many levels deep


def ctx() -> "Ctx":
    if _CTX is None:
        raise EngineError("no active path context")
    return _CTX


def active() -> bool:
    return _CTX is not None


class Obligation:
    __slots__ = ("name", "status", "model", "detail", "time", "path", "kind", "backend", "model_exc")

    def __init__(self, name, status, model=None, detail="", t=0.0, path=None, kind="post", backend="z3", model_exc=None):
        self.model_exc = model_exc  # an exception raised inside the value model (not by the code) earlier on this path
        self.name = name
        self.status = status  # proved | refuted | undecided
        self.model = model
        self.detail = detail
        self.time = t
        self.path = path
        self.kind = kind
        self.backend = backend

    def to_json(self):
        return {
            "name": self.name,
            "status": self.status,
            "kind": self.kind,
            "detail": self.detail,
            "solver_s": round(self.time, 4),
            "path": self.path,
            "model": self.model,
            "backend": self.backend,
            "model_exc": self.model_exc,
        }


class Ctx:
    def __init__(self, prefix=()):
        self.prefix = list(prefix)
        self.trace = []  # list of (value, forked)
        self.solver = z3.Solver()
        self.solver.set("timeout", SOLVER_TIMEOUT_MS)
        self.obligations = []
        self.solver_time = 0.0
        self.n_checks = 0
        self.fresh_counter = itertools.count()
        self.notes = []
        self.assumed = []  # textual record of assumptions (axioms of primitives etc.)
        self.model_terms = []  # (label, z3 term) to be evaluated in counter-models
        self.pathdesc = []
        self.refute_hook = None  # callable(ctx, extra_constraints) -> json (concrete input from a model)
        # manual E-matching: universally quantified facts are kept as triggers on uninterpreted
        # function symbols and instantiated at every application term that reaches the solver
        self.triggers = {}  # decl name -> [fn(*args) -> z3 Bool | None]
        self.seen_apps = {}  # decl name -> [args tuple]
        self._seen_keys = set()
        self._scanned = {}
        self.pc_log = []  # literals asserted by decide()
        self.assume_log = []  # facts asserted by assume()
        self.loop_contracts = []  # pending loop contracts (consumed in order by symbolic range())

    # -- scopes (used by proof rules whose hypotheses must not leak, e.g. induction steps)
    def push(self):
        self.solver.push()
        self._scopes = getattr(self, "_scopes", [])
        self._scopes.append(
            (
                {k: list(v) for k, v in self.triggers.items()},
                {k: list(v) for k, v in self.seen_apps.items()},
                set(self._seen_keys),
                dict(self._scanned),
                len(self.pc_log),
                len(self.assume_log),
            )
        )

    def pop(self):
        self.solver.pop()
        tr, sa, sk, sc, npc, nas = self._scopes.pop()
        self.triggers, self.seen_apps, self._seen_keys, self._scanned = tr, sa, sk, sc
        del self.pc_log[npc:]
        del self.assume_log[nas:]

    # -- triggers
    def add_trigger(self, fname, fact_fn):
        self.triggers.setdefault(fname, []).append(fact_fn)
        for args in list(self.seen_apps.get(fname, [])):
            self._fire(fact_fn, args, 0)

    def _fire(self, fn, args, depth):
        fact = fn(*args)
        if fact is None:
            return
        fact = as_z3_bool(fact)
        self.solver.add(fact)
        if depth < MAX_TRIGGER_DEPTH:
            self.instantiate(fact, depth=depth + 1)

    def instantiate(self, *exprs, depth=0):
        stack = [e for e in exprs if z3.is_expr(e)]
        while stack:
            e = stack.pop()
            i = e.get_id()
            if i in self._scanned:
                continue
            self._scanned[i] = e  # keep the term alive: z3 recycles the ids of freed terms
            if z3.is_app(e):
                d = e.decl()
                if d.kind() == z3.Z3_OP_UNINTERPRETED and e.num_args() > 0:
                    nm = d.name()
                    key = (nm, tuple(a.get_id() for a in e.children()))
                    if key not in self._seen_keys:
                        self._seen_keys.add(key)
                        args = tuple(e.children())
                        self.seen_apps.setdefault(nm, []).append(args)
                        for fn in list(self.triggers.get(nm, [])):
                            self._fire(fn, args, depth)
                stack.extend(e.children())

    # -- solver helpers
    def _check(self, *extra):
        t0 = time.time()
        self.solver.push()
        for e in extra:
            self.solver.add(e)
        r = self.solver.check()
        m = None
        if r == z3.sat:
            m = self.solver.model()
        self.solver.pop()
        self.solver_time += time.time() - t0
        self.n_checks += 1
        return r, m

    def assume(self, fact, why=None):
        fact = as_z3_bool(fact)
        self.solver.add(fact)
        self.assume_log.append(fact)
        self.instantiate(fact)
        if why:
            self.assumed.append(why)

    def decide(self, cond) -> bool:
        cond = z3.simplify(cond)
        if z3.is_true(cond):
            return True
        if z3.is_false(cond):
            return False
        k = len(self.trace)
        self.instantiate(cond)
        if k < len(self.prefix):
            v, forked = self.prefix[k]
            self.trace.append((v, forked))
            lit = cond if v else z3.Not(cond)
            self.solver.add(lit)
            self.pc_log.append(lit)
            return v
        rt, _ = self._check(cond)
        rf, _ = self._check(z3.Not(cond))
        can_t = rt != z3.unsat
        can_f = rf != z3.unsat
        if not can_t and not can_f:
            raise PathInfeasible()
        if can_t and can_f:
            v, forked = True, True
        else:
            v, forked = can_t, False
        self.trace.append((v, forked))
        lit = cond if v else z3.Not(cond)
        self.solver.add(lit)
        self.pc_log.append(lit)
        return v

    def fresh(self, base, sort="int"):
        n = next(self.fresh_counter)
        name = f"{base}!{n}"
        if sort == "int":
            return z3.Int(name)
        if sort == "real":
            return z3.Real(name)
        if sort == "bool":
            return z3.Bool(name)
        raise EngineError(sort)

    def prove(self, name, goal, kind="post", hyps=(), detail=""):
        """Record obligation  (path condition and hyps) => goal."""
        goal = as_z3_bool(goal)
        hyps = [as_z3_bool(h) for h in hyps]
        self.instantiate(goal, *hyps)
        t0 = time.time()
        r, m = self._check(*hyps, z3.Not(goal))
        dt = time.time() - t0
        backend = "z3"
        if r == z3.unknown:
            r2 = _cvc5_second_opinion(self.solver, hyps, goal)
            if r2 is not None:
                r = r2
                backend = "cvc5"
        if r == z3.unsat:
            st, model = "proved", None
        elif r == z3.sat:
            st = "refuted"
            model = self._model_to_json(m) if m is not None else None
            if self.refute_hook is not None:
                try:
                    model = {"terms": model, "input": self.refute_hook(self, list(hyps) + [z3.Not(goal)], m)}
                except Exception as e:  # pragma: no cover
                    model = {"terms": model, "input": None, "hook_error": repr(e)}
        else:
            st, model = "undecided", None
        ob = Obligation(name, st, model, detail, dt, path=self.path_id(), kind=kind, backend=backend, model_exc=getattr(self, "model_exc", None))
        self.obligations.append(ob)
        if st == "proved":
            # standard assert-then-assume
            if hyps:
                self.solver.add(z3.Implies(z3.And(*hyps), goal))
            else:
                self.solver.add(goal)
        return ob

    def cover(self, name, cond=True):
        """Reachability / non-vacuity: path condition (and cond) must be satisfiable."""
        cond = as_z3_bool(cond)
        self.solver.set("timeout", COVER_TIMEOUT_MS)
        try:
            r, m = self._check(cond)
        finally:
            self.solver.set("timeout", SOLVER_TIMEOUT_MS)
        st = "proved" if r == z3.sat else ("undecided" if r == z3.unknown else "refuted")
        ob = Obligation(name, st, None, "cover: must be satisfiable", 0.0, path=self.path_id(), kind="cover")
        self.obligations.append(ob)
        return ob

    def path_id(self):
        return "".join("T" if v else "F" for v, f in self.trace if f) or "-"

    def _model_to_json(self, m):
        out = {}
        for lbl, term in self.model_terms:
            try:
                out[lbl] = str(m.eval(term, model_completion=True))
            except Exception as e:  # pragma: no cover
                out[lbl] = f"<{e}>"
        # also raw declarations (bounded)
        raw = {}
        for d in m.decls()[:60]:
            try:
                raw[d.name()] = str(m[d])[:200]
            except Exception:
                pass
        out["_raw"] = raw
        return out

    def watch(self, label, term):
        self.model_terms.append((label, unwrap(term)))


def _cvc5_second_opinion(solver, hyps, goal):
    """Hand an `unknown` query to cvc5 through SMT-LIB text. Returns z3.sat/unsat or None."""
    import shutil
    import subprocess
    import tempfile
    import os

    exe = shutil.which("cvc5")
    if exe is None:
        return None
    s2 = z3.Solver()
    for a in solver.assertions():
        s2.add(a)
    for h in hyps:
        s2.add(h)
    s2.add(z3.Not(goal))
    txt = "(set-logic ALL)\n" + s2.to_smt2()
    fd, p = tempfile.mkstemp(suffix=".smt2")
    try:
        with os.fdopen(fd, "w") as f:
            f.write(txt)
        r = subprocess.run([exe, "--tlimit=30000", p], capture_output=True, text=True, timeout=40)
        out = r.stdout.strip().splitlines()
        if out and out[0] == "unsat":
            return z3.unsat
        if out and out[0] == "sat":
            return z3.sat
    except Exception:
        return None
    finally:
        try:
            os.unlink(p)
        except OSError:
            pass
    return None


class PathResult:
    def __init__(self, trace, outcome, obligations, solver_time, n_checks, notes):
        self.trace = trace
        self.outcome = outcome  # ("ok", summary) | ("unsupported", msg) | ("crash", msg)
        self.obligations = obligations
        self.solver_time = solver_time
        self.n_checks = n_checks
        self.notes = notes


def explore(run, max_paths=400):
    """Run `run(ctx)` once per feasible decision sequence (DFS). `run` must be deterministic."""
    global _CTX
    work = [[]]
    results = []
    while work:
        if len(results) >= max_paths:
            results.append(PathResult([], ("unsupported", f"path budget {max_paths} exhausted"), [], 0, 0, []))
            break
        prefix = work.pop()
        c = Ctx(prefix)
        prev = _CTX
        _CTX = c
        try:
            try:
                out = run(c)
                outcome = ("ok", out)
            except PathInfeasible:
                outcome = ("infeasible", None)
            except Unsupported as e:
                outcome = ("unsupported", str(e))
                if os.environ.get("FVC_TB"):
                    import traceback

                    traceback.print_exc()
        finally:
            _CTX = prev
        if outcome[0] != "infeasible":
            results.append(PathResult(list(c.trace), outcome, c.obligations, c.solver_time, c.n_checks, c.notes))
        # schedule siblings for forks discovered beyond the prefix
        for i in range(len(prefix), len(c.trace)):
            v, forked = c.trace[i]
            if forked:
                work.append(c.trace[:i] + [(not v, True)])
    return results


# ----------------------------------------------------------------------------------------
# symbolic scalars


def unwrap(x):
    if isinstance(x, (SymInt, SymReal, SymBool)):
        return x.e
    return x


def as_z3_bool(x):
    if isinstance(x, SymBool):
        return x.e
    if isinstance(x, bool):
        return z3.BoolVal(x)
    if z3.is_expr(x) and z3.is_bool(x):
        return x
    if hasattr(x, "dtype") and getattr(x, "shape", None) == ():  # numpy bool_
        return z3.BoolVal(bool(x))
    raise EngineError(f"not a boolean: {x!r}")


def _real_const(v):
    if isinstance(v, bool):
        v = int(v)
    if isinstance(v, int):
        return z3.RealVal(v)
    if isinstance(v, float):
        if v != v or v in (float("inf"), float("-inf")):
            raise Unsupported("nan/inf literal in symbolic real arithmetic")
        return z3.RealVal(str(fractions.Fraction(v)))
    if isinstance(v, fractions.Fraction):
        return z3.RealVal(str(v))
    if hasattr(v, "item") and getattr(v, "shape", None) == ():
        return _real_const(v.item())
    raise TypeError(v)


def is_numlike(v):
    if hasattr(v, "_buf"):  # symbolic arrays handle arithmetic themselves (reflected operators)
        return False
    return isinstance(v, (int, float, fractions.Fraction, SymInt, SymReal)) or (
        hasattr(v, "item") and getattr(v, "shape", None) == () and not isinstance(v, SymBool)
    )


def to_real(v):
    """-> z3 Real expr"""
    if isinstance(v, SymReal):
        return v.e
    if isinstance(v, SymInt):
        return z3.ToReal(v.e)
    if isinstance(v, SymBool):
        return z3.If(v.e, z3.RealVal(1), z3.RealVal(0))
    if z3.is_expr(v):
        if z3.is_int(v):
            return z3.ToReal(v)
        if z3.is_bool(v):
            return z3.If(v, z3.RealVal(1), z3.RealVal(0))
        return v
    return _real_const(v)


def to_int(v):
    """-> z3 Int expr"""
    if isinstance(v, SymInt):
        return v.e
    if isinstance(v, bool):
        return z3.IntVal(int(v))
    if isinstance(v, int):
        return z3.IntVal(v)
    if z3.is_expr(v) and z3.is_int(v):
        return v
    if hasattr(v, "item") and getattr(v, "shape", None) == () and isinstance(v.item(), int):
        return z3.IntVal(v.item())
    raise TypeError(f"not an int: {v!r}")


def is_intlike(v):
    if hasattr(v, "_buf"):
        return False
    return isinstance(v, (int, SymInt)) and not isinstance(v, bool) or (
        hasattr(v, "item") and getattr(v, "shape", None) == () and isinstance(v.item(), int)
    )


def wrap(e):
    """z3 expr -> proxy (constants folded to Python values where exact)."""
    if not z3.is_expr(e):
        return e
    e = z3.simplify(e)
    if z3.is_bool(e):
        if z3.is_true(e):
            return True
        if z3.is_false(e):
            return False
        return SymBool(e)
    if z3.is_int(e):
        if z3.is_int_value(e):
            return e.as_long()
        return SymInt(e)
    return SymReal(e)


class SymBool:
    __slots__ = ("e",)

    def __init__(self, e):
        self.e = e

    def __bool__(self):
        return ctx().decide(self.e)

    def __and__(self, o):
        return wrap(z3.And(self.e, as_z3_bool(o)))

    __rand__ = __and__

    def __or__(self, o):
        return wrap(z3.Or(self.e, as_z3_bool(o)))

    __ror__ = __or__

    def __invert__(self):
        return wrap(z3.Not(self.e))

    def __eq__(self, o):
        if isinstance(o, (SymBool, bool)):
            return wrap(self.e == as_z3_bool(o))
        return NotImplemented

    def __ne__(self, o):
        if isinstance(o, (SymBool, bool)):
            return wrap(self.e != as_z3_bool(o))
        return NotImplemented

    __hash__ = object.__hash__

    def __repr__(self):
        return f"SymBool({self.e})"

    # a numpy bool_ scalar (what an elementwise test of a 0-d array gives) answers the reductions of one element
    def any(self, *a, **k):
        return self

    def all(self, *a, **k):
        return self

    def item(self):
        return self

    def copy(self):
        return self

    @property
    def shape(self):
        return ()

    @property
    def ndim(self):
        return 0

    @property
    def size(self):
        return 1

    # arithmetic on bools (sum of comparisons)
    def __add__(self, o):
        return SymInt(z3.If(self.e, 1, 0)) + o

    __radd__ = __add__


def _arith_pair(a, b):
    """Return ('int', za, zb) or ('real', za, zb) or None"""
    if is_intlike(a) and is_intlike(b):
        return "int", to_int(a), to_int(b)
    if isinstance(a, SymBool):
        a = SymInt(z3.If(a.e, 1, 0))
    if isinstance(b, SymBool):
        b = SymInt(z3.If(b.e, 1, 0))
    if is_intlike(a) and is_intlike(b):
        return "int", to_int(a), to_int(b)
    if is_numlike(a) and is_numlike(b):
        return "real", to_real(a), to_real(b)
    return None


POW = z3.Function("pow", z3.RealSort(), z3.RealSort(), z3.RealSort())


class _SymNum:
    __slots__ = ("e",)
    __array_priority__ = 1000

    def __init__(self, e):
        self.e = e

    def __bool__(self):
        # truth value of a number: x != 0 (decided by the path context; forks when both are possible)
        return ctx().decide(self.e != 0) if active() else True

    def _bin(self, o, f, rev=False):
        p = _arith_pair(o, self) if rev else _arith_pair(self, o)
        if p is None:
            return NotImplemented
        kind, a, b = p
        return wrap(f(kind, a, b))

    def __add__(self, o):
        return self._bin(o, lambda k, a, b: a + b)

    def __radd__(self, o):
        return self._bin(o, lambda k, a, b: a + b, True)

    def __sub__(self, o):
        return self._bin(o, lambda k, a, b: a - b)

    def __rsub__(self, o):
        return self._bin(o, lambda k, a, b: a - b, True)

    def __mul__(self, o):
        return self._bin(o, lambda k, a, b: a * b)

    def __rmul__(self, o):
        return self._bin(o, lambda k, a, b: a * b, True)

    def __truediv__(self, o):
        if not is_numlike(o):
            return NotImplemented
        return wrap(to_real(self) / to_real(o))

    def __rtruediv__(self, o):
        if not is_numlike(o):
            return NotImplemented
        return wrap(to_real(o) / to_real(self))

    def __floordiv__(self, o):
        if is_intlike(self) and is_intlike(o):
            return wrap(to_int(self) / to_int(o))
        return NotImplemented

    def __mod__(self, o):
        if is_intlike(self) and is_intlike(o):
            return wrap(to_int(self) % to_int(o))
        return NotImplemented

    def __pow__(self, o):
        if isinstance(o, int) and not isinstance(o, bool) and 0 <= o <= 4:
            r = 1
            for _ in range(o):
                r = self * r
            return r
        if not is_numlike(o):
            return NotImplemented
        return wrap(POW(to_real(self), to_real(o)))

    def __rpow__(self, o):
        if not is_numlike(o):
            return NotImplemented
        return wrap(POW(to_real(o), to_real(self)))

    def __neg__(self):
        return wrap(-self.e)

    def __pos__(self):
        return self

    def __abs__(self):
        return wrap(z3.If(self.e >= 0, self.e, -self.e))

    def _cmp(self, o, f):
        p = _arith_pair(self, o)
        if p is None:
            return NotImplemented
        return wrap(f(p[1], p[2]))

    def __lt__(self, o):
        return self._cmp(o, lambda a, b: a < b)

    def __le__(self, o):
        return self._cmp(o, lambda a, b: a <= b)

    def __gt__(self, o):
        return self._cmp(o, lambda a, b: a > b)

    def __ge__(self, o):
        return self._cmp(o, lambda a, b: a >= b)

    def __eq__(self, o):
        p = _arith_pair(self, o)
        if p is None:
            return False
        return wrap(p[1] == p[2])

    def __ne__(self, o):
        p = _arith_pair(self, o)
        if p is None:
            return True
        return wrap(p[1] != p[2])

    __hash__ = object.__hash__

    def __repr__(self):
        return f"{type(self).__name__}({self.e})"


class SymInt(_SymNum):
    __slots__ = ()

    def item(self):
        return self

    def copy(self):
        return self

    def max(self, *a, **k):
        return self

    def min(self, *a, **k):
        return self

    def sum(self, *a, **k):
        return self

    @property
    def shape(self):
        return ()

    @property
    def ndim(self):
        return 0

    @property
    def size(self):
        return 1

    def __index__(self):
        raise Unsupported(f"concrete value of symbolic int {self.e} required")

    def __int__(self):
        raise Unsupported(f"int() of symbolic int {self.e}")

    def __float__(self):
        raise Unsupported(f"float() of symbolic int {self.e}")


class SymReal(_SymNum):
    __slots__ = ()

    def __float__(self):
        raise Unsupported(f"float() of symbolic real {self.e}")

    def astype(self, t):
        return self

    def copy(self):
        return self

    def item(self):
        return self

    # numpy scalars answer the reductions of a one-element array
    def max(self, *a, **k):
        return self

    def min(self, *a, **k):
        return self

    def sum(self, *a, **k):
        return self

    def mean(self, *a, **k):
        return self

    def any(self, *a, **k):
        return self != 0

    def all(self, *a, **k):
        return self != 0

    def flatten(self):
        raise Unsupported("flatten() of a symbolic scalar")

    @property
    def shape(self):
        return ()

    @property
    def ndim(self):
        return 0

    @property
    def size(self):
        return 1


numbers.Number.register(SymReal)
numbers.Number.register(SymInt)


def sym_int(name, lo=None):
    v = SymInt(z3.Int(name))
    if lo is not None:
        ctx().assume(v.e >= lo)
    return v


def sym_real(name):
    return SymReal(z3.Real(name))


def sand(*xs):
    zs = [as_z3_bool(x) for x in xs]
    return wrap(z3.And(*zs)) if zs else True


def sor(*xs):
    zs = [as_z3_bool(x) for x in xs]
    return wrap(z3.Or(*zs)) if zs else False


def snot(x):
    return wrap(z3.Not(as_z3_bool(x)))


def simplies(a, b):
    return wrap(z3.Implies(as_z3_bool(a), as_z3_bool(b)))


def site(c, a, b):
    """symbolic if-then-else on numbers (no path fork)"""
    if isinstance(c, bool):
        return a if c else b
    p = _arith_pair(a, b)
    if p is None:
        raise EngineError("site on non-numbers")
    return wrap(z3.If(as_z3_bool(c), p[1], p[2]))


# ----------------------------------------------------------------------------------------
# finite sums with symbolic bounds:  canonical uninterpreted terms
#
# A sum  Sum_{v1 in [lo1,hi1), ..., vk in [lok,hik)} body  is represented by the application of
# an uninterpreted function that is determined by the *canonical form* of (bounds, body):
#   * linearity is normalised away first (sum of a sum of monomials; factors that do not
#     depend on the bound variables are pulled out; a body independent of all bound variables
#     gives  product of range lengths * body),
#   * nested sums with independent ranges are flattened (Fubini) and the bound variables are
#     put in a canonical order (lexicographically least rendering over all orders),
#   * free constants of the body become the arguments of the function, so congruence is
#     available to the solver.
# These rewriting rules are part of the trusted engine; each is an instance of a lemma of the
# lemma library (SUM-LIN, SUM-CONST, SUM-COMM) that is proved by induction on every run.

_bv_counter = itertools.count()


def bound_var(tag):
    """fresh, globally unique bound variable (canonicalisation abstracts the name away)"""
    return z3.Int(f"b!{tag}!{next(_bv_counter)}")


_SUM_DEFS = {}  # fname -> dict(bounds, body, params)
_SUM_APPS = {}  # z3 app id (ast hash via sexpr) -> (fname, bounds(list of (var,lo,hi)), body)


def _free_consts(e, acc=None, seen=None):
    if acc is None:
        acc, seen = [], set()
    if e.get_id() in seen:
        return acc
    seen.add(e.get_id())
    if z3.is_const(e) and e.decl().kind() == z3.Z3_OP_UNINTERPRETED:
        acc.append(e)
    for ch in e.children():
        _free_consts(ch, acc, seen)
    return acc


def _depends(e, vars_):
    ids = {v.get_id() for v in vars_}
    return any(c.get_id() in ids for c in _free_consts(e))


def _expand_monomials(e):
    """Expand a real expr into list of (sign_coeff z3 real const expr, [factors]) monomials over +,-,* ."""
    e = z3.simplify(e, som=False)
    k = e.decl().kind() if z3.is_app(e) else None
    if k == z3.Z3_OP_ADD:
        out = []
        for ch in e.children():
            out += _expand_monomials(ch)
        return out
    if k == z3.Z3_OP_SUB:
        ch = e.children()
        out = _expand_monomials(ch[0])
        for c in ch[1:]:
            out += [([z3.RealVal(-1)] + m) for m in _expand_monomials(c)]
        return out
    if k == z3.Z3_OP_UMINUS:
        return [([z3.RealVal(-1)] + m) for m in _expand_monomials(e.children()[0])]
    if k == z3.Z3_OP_MUL:
        parts = [_expand_monomials(c) for c in e.children()]
        out = [[]]
        for p in parts:
            out = [a + b for a in out for b in p]
            if len(out) > 64:
                return [[e]]
        return out
    if k == z3.Z3_OP_DIV:
        num, den = e.children()
        ms = _expand_monomials(num)
        return [m + [z3.RealVal(1) / den] for m in ms]
    if k == z3.Z3_OP_TO_REAL:
        inner = e.children()[0]
        ik = inner.decl().kind() if z3.is_app(inner) else None
        if ik in (z3.Z3_OP_ADD, z3.Z3_OP_SUB, z3.Z3_OP_MUL, z3.Z3_OP_UMINUS):
            lifted = {
                z3.Z3_OP_ADD: lambda cs: z3.Sum(cs),
                z3.Z3_OP_SUB: lambda cs: cs[0] - z3.Sum(cs[1:]) if len(cs) > 1 else cs[0],
                z3.Z3_OP_MUL: lambda cs: z3.Product(cs),
                z3.Z3_OP_UMINUS: lambda cs: -cs[0],
            }[ik]([z3.ToReal(c) for c in inner.children()])
            return _expand_monomials(lifted)
    return [[e]]


def mk_sum(bounds, body):
    """bounds: list of (var (z3 Int const), lo, hi) ; body: z3 Real expr. Returns z3 Real expr."""
    body = to_real(body)
    bounds = [(v, z3.simplify(to_int(lo)), z3.simplify(to_int(hi))) for v, lo, hi in bounds]
    if not bounds:
        return body
    # ranges must not depend on the other bound variables of this sum for the rules below
    vars_ = [b[0] for b in bounds]
    for v, lo, hi in bounds:
        if _depends(lo, vars_) or _depends(hi, vars_):
            return _opaque_sum(bounds, body)
    total = None
    for mono in _expand_monomials(body):
        dep = [f for f in mono if _depends(f, vars_)]
        indep = [f for f in mono if not _depends(f, vars_)]
        used = [b for b in bounds if any(_depends(f, [b[0]]) for f in dep)]
        unused = [b for b in bounds if b not in used]
        coeff = z3.RealVal(1)
        for f in indep:
            coeff = coeff * f
        for v, lo, hi in unused:
            coeff = coeff * z3.ToReal(hi - lo)  # SUM-CONST (ranges are non-empty or empty: hi>=lo assumed by callers)
        if dep:
            inner = z3.RealVal(1)
            for f in dep:
                inner = inner * f
            inner = z3.simplify(inner)
            term = coeff * _atomic_sum(used, inner)
        else:
            term = coeff
        total = term if total is None else total + term
    return z3.simplify(total)


def _atomic_sum(bounds, body):
    # Fubini flattening: body is exactly a registered sum application whose ranges are independent
    key = body.sexpr()
    if key in _SUM_APPS:
        fname, ib, ibody = _SUM_APPS[key]
        outer_vars = [b[0] for b in bounds]
        if not any(_depends(lo, outer_vars) or _depends(hi, outer_vars) for _, lo, hi in ib):
            return mk_sum(list(bounds) + list(ib), ibody)
    return _opaque_sum(bounds, body)


_COMMUTATIVE = (z3.Z3_OP_ADD, z3.Z3_OP_MUL, z3.Z3_OP_AND, z3.Z3_OP_OR, z3.Z3_OP_EQ, z3.Z3_OP_DISTINCT)


def _canon(e, memo=None):
    """rebuild e with the arguments of commutative operators sorted by their printed form, so that
    the canonical form of a sum does not depend on z3's creation-order-dependent argument order"""
    if memo is None:
        memo = {}
    k = e.get_id()
    if k in memo:
        return memo[k]
    if z3.is_app(e) and e.num_args() > 0:
        ch = [_canon(c, memo) for c in e.children()]
        kind = e.decl().kind()
        if kind in _COMMUTATIVE:
            ch.sort(key=lambda c: c.sexpr())
            if kind == z3.Z3_OP_ADD:
                r = z3.Sum(ch) if len(ch) > 1 else ch[0]
            elif kind == z3.Z3_OP_MUL:
                r = z3.Product(ch) if len(ch) > 1 else ch[0]
            elif kind == z3.Z3_OP_AND:
                r = z3.And(*ch)
            elif kind == z3.Z3_OP_OR:
                r = z3.Or(*ch)
            elif kind == z3.Z3_OP_EQ:
                r = ch[0] == ch[1]
            else:
                r = z3.Distinct(*ch)
        else:
            r = e.decl()(*ch)
    else:
        r = e
    memo[k] = r
    return r


def _opaque_sum(bounds, body):
    import hashlib

    body = z3.simplify(body)

    # canonical order of the bound variables: first by a per-variable signature (the body and the ranges with this
    # variable marked and all other bound variables anonymised), then -- only among variables with equal
    # signatures -- by the lexicographically least rendering over their permutations
    allv = [b[0] for b in bounds]
    anon = z3.Int("__O")
    mark = z3.Int("__X")

    def signature(k):
        subs = [(v, mark if j == k else anon) for j, v in enumerate(allv)]
        parts = [_canon(z3.substitute(body, *subs)).sexpr()]
        for _, lo, hi in bounds:
            parts.append(_canon(z3.substitute(lo, *subs)).sexpr() + "," + _canon(z3.substitute(hi, *subs)).sexpr())
        return "|".join(parts) + "#" + _canon(z3.substitute(bounds[k][1], *subs)).sexpr() + "," + _canon(z3.substitute(bounds[k][2], *subs)).sexpr()

    sigs = [signature(k) for k in range(len(bounds))]
    order = sorted(range(len(bounds)), key=lambda k: sigs[k])
    groups = []
    for k in order:
        if groups and sigs[groups[-1][0]] == sigs[k]:
            groups[-1].append(k)
        else:
            groups.append([k])
    n_perms = 1
    for g in groups:
        for q in range(2, len(g) + 1):
            n_perms *= q
    if n_perms > 720:
        group_perms = [[tuple(g)] for g in groups]  # give up on tie-breaking (sound, possibly incomplete)
    else:
        group_perms = [list(itertools.permutations(g)) for g in groups]
    best = None
    for choice in itertools.product(*group_perms):
        perm = [k for g in choice for k in g]
        pb = [bounds[i] for i in perm]
        subs = [(b[0], z3.Int(f"__B{j}")) for j, b in enumerate(pb)]
        rb = _canon(z3.substitute(body, *subs))
        rbounds = [(_canon(z3.substitute(lo, *subs)), _canon(z3.substitute(hi, *subs))) for _, lo, hi in pb]
        s = rb.sexpr() + "|" + "|".join(f"{lo.sexpr()},{hi.sexpr()}" for lo, hi in rbounds)
        if best is None or s < best[0]:
            best = (s, pb, rb, rbounds)
    s, pb, rb, rbounds = best
    # abstract the maximal bound-variable-free subterms into parameters (congruence for the solver)
    placeholders = {f"__B{j}" for j in range(len(pb))}
    params = []  # list of z3 terms
    pindex = {}

    memo = {}

    def has_bound(e):
        k = e.get_id()
        if k in memo:
            return memo[k]
        if z3.is_const(e):
            r = e.decl().kind() == z3.Z3_OP_UNINTERPRETED and e.decl().name() in placeholders
        else:
            r = any(has_bound(ch) for ch in e.children())
        memo[k] = r
        return r

    def abstract(e):
        if z3.is_rational_value(e) or z3.is_true(e) or z3.is_false(e):
            return e
        if z3.is_int_value(e):
            # integer literals (typically indices of length-1 axes) are parameters as well, so that a
            # literal 0 and an index term known to be 0 lead to the same function symbol
            params.append(e)
            return z3.Const(f"__P{len(params) - 1}", e.sort())
        if not has_bound(e) and (z3.is_int(e) or z3.is_real(e)):
            # every occurrence gets its own parameter: the canonical form must not depend on whether
            # two arguments happen to be the same term
            params.append(e)
            return z3.Const(f"__P{len(params) - 1}", e.sort())
        if z3.is_app(e) and e.num_args() > 0:
            ch = [abstract(c) for c in e.children()]
            return e.decl()(*ch)
        return e

    allexpr = [rb] + [x for p in rbounds for x in p]
    abstracted = [abstract(ex) for ex in allexpr]
    frees = params
    canon = "|".join(ex.sexpr() for ex in abstracted)
    h = hashlib.sha1(canon.encode()).hexdigest()[:12]
    fname = f"SUM_{h}"
    if frees:
        f = z3.Function(fname, *[c.sort() for c in frees], z3.RealSort())
        app = f(*frees)
    else:
        app = z3.Real(fname)
    if active():
        # definition of the empty sum
        ctx().solver.add(z3.Implies(z3.Or(*[hi <= lo for _, lo, hi in pb]), app == 0))
    _SUM_DEFS.setdefault(fname, {"canon": canon, "nparams": len(frees)})
    _SUM_APPS[app.sexpr()] = (fname, list(pb), body)
    return app


def sum_info(app):
    """Definition of a registered sum application (for lemma instantiation)."""
    return _SUM_APPS.get(app.sexpr())
