"""Symbolic numpy: SymArr (an np.ndarray subclass carrying a symbolic shape and element function)
and the `np` / builtins shims that are injected into flodym's module namespaces.

Primitive contracts of numpy (trusted, differential-tested by fvc.primcheck):
every operation below states the element of the result as a term over the elements of the
operands; views share a Buffer, copies get a fresh one.
"""
from __future__ import annotations

import builtins
import itertools
import numbers
import numpy as _np
import z3

from . import core
from .core import (
    SymBool,
    SymInt,
    SymReal,
    Unsupported,
    ctx,
    mk_sum,
    to_int,
    to_real,
    wrap,
    unwrap,
)

_buf_ids = itertools.count(1)
_inv_counter = itertools.count()


def _memo(fn):
    """element functions are nested closures (a write wraps the previous contents); without a cache the same
    index is re-evaluated once per nesting level and branch -- exponential in the number of writes"""
    cache = {}

    def wrapped(idx):
        wrapped.reads += 1
        key = tuple(i if isinstance(i, int) else (i.e.get_id() if hasattr(i, "e") else (i.get_id() if z3.is_expr(i) else id(i))) for i in idx)
        hit = cache.get(key)
        if hit is not None:
            return hit[1]
        r = fn(idx)
        if len(cache) > 4096:
            cache.clear()
        cache[key] = (idx, r)  # keep the index terms alive: z3 recycles ids of freed terms
        return r

    wrapped.reads = 0
    return wrapped


class Buffer:
    def __init__(self, shape, fn, kind="real", origin="fresh"):
        self.shape = tuple(shape)
        self.fn = _memo(fn)  # tuple(index terms) -> z3 expr of sort kind
        self.kind = kind
        self.version = 0
        self.n_frozen = 0  # number of readers created on this buffer (data-dependence tracking for loop rules)
        self.id = next(_buf_ids)
        self.origin = origin

    @property
    def ndim(self):
        return len(self.shape)


def _zsize(n):
    return n.e if isinstance(n, SymInt) else z3.IntVal(int(n))


def same_size(a, b) -> bool:
    """decide (forking if necessary) whether two dimension lengths are equal"""
    if isinstance(a, SymInt) or isinstance(b, SymInt):
        return bool(wrap(_zsize(a) == _zsize(b)))
    return int(a) == int(b)


def is_one(a) -> bool:
    if isinstance(a, SymInt):
        return bool(wrap(a.e == 1))
    return int(a) == 1


def _kind_of_value(v):
    if isinstance(v, SymBool) or isinstance(v, (bool, _np.bool_)):
        return "bool"
    if isinstance(v, SymInt) or isinstance(v, (int, _np.integer)):
        return "int"
    return "real"


def _const_expr(v, kind):
    if kind == "real":
        return to_real(v)
    if kind == "int":
        return to_int(v)
    if isinstance(v, (bool, int, float, _np.bool_, _np.integer, _np.floating)):
        return z3.BoolVal(bool(v))
    return core.as_z3_bool(v)


def _cast_expr(e, frm, to):
    if frm == to:
        return e
    if to == "real":
        return to_real(e)
    if to == "int":
        if frm == "bool":
            return z3.If(e, z3.IntVal(1), z3.IntVal(0))
        return z3.ToInt(e)  # numpy truncates; used for integer-valued reals (positions) only
    if to == "bool":
        if frm == "int":
            return e != 0
        return e != 0
    raise Unsupported(f"cast {frm}->{to}")


def _join_kind(a, b):
    order = {"bool": 0, "int": 1, "real": 2}
    return a if order[a] >= order[b] else b


class SymArr(_np.ndarray):
    """View onto a symbolic Buffer.

    _vaxes: list over view axes: ('b', k, off, n)  -> buffer axis k, index off + i, length n
                                 ('n',)            -> newaxis (length 1)
                                 ('r', n)          -> broadcast/replicated axis of length n (read only)
    _fixed: {buffer axis k: index term}
    """

    def __new__(cls, buf, vaxes=None, fixed=None):
        obj = _np.ndarray.__new__(cls, (0,))
        obj._buf = buf
        if vaxes is None:
            vaxes = [("b", k, 0, n) for k, n in enumerate(buf.shape)]
        obj._vaxes = list(vaxes)
        obj._fixed = dict(fixed or {})
        return obj

    def __array_finalize__(self, obj):
        pass

    # -- construction helpers
    @staticmethod
    def fresh(shape, fn, kind="real", origin="fresh"):
        return SymArr(Buffer(shape, fn, kind, origin))

    @staticmethod
    def input(name, shape, kind="real"):
        sorts = [z3.IntSort()] * len(shape)
        rng = {"real": z3.RealSort(), "int": z3.IntSort(), "bool": z3.BoolSort()}[kind]
        if shape:
            f = z3.Function(name, *sorts, rng)
            fn = lambda idx: f(*[to_int(i) for i in idx])
        else:
            c = z3.Const(name, rng)
            fn = lambda idx: c
        return SymArr(Buffer(shape, fn, kind, origin="input:" + name))

    # -- basic attributes
    @property
    def shape(self):
        out = []
        for a in self._vaxes:
            if a[0] == "b":
                out.append(a[3])
            elif a[0] == "n":
                out.append(1)
            else:
                out.append(a[1])
        return tuple(out)

    @property
    def ndim(self):
        return len(self._vaxes)

    @property
    def kind(self):
        return self._buf.kind

    @property
    def dtype(self):
        return {"real": _np.dtype("float64"), "int": _np.dtype("int64"), "bool": _np.dtype("bool")}[self.kind]

    @property
    def size(self):
        r = 1
        for s in self.shape:
            r = r * s
        return r

    @property
    def T(self):
        return SymArr(self._buf, list(reversed(self._vaxes)), self._fixed)

    def is_view_of_input(self):
        return self._buf.origin.startswith("input")

    # -- element access (spec level)
    def _bufidx(self, idx):
        if len(idx) != len(self._vaxes):
            raise core.EngineError(f"index rank {len(idx)} != {len(self._vaxes)}")
        bi = [None] * self._buf.ndim
        for k, t in self._fixed.items():
            bi[k] = t
        for i, a in zip(idx, self._vaxes):
            if a[0] == "b":
                bi[a[1]] = unwrap(i) + unwrap(a[2]) if not _is_zero(a[2]) else unwrap(i)
        return tuple(bi)

    def at(self, *idx):
        """z3 expr for the element at view index idx"""
        if len(idx) == 1 and isinstance(idx[0], tuple):
            idx = idx[0]
        return self._buf.fn(self._bufidx(idx))

    def frozen(self):
        """element function that is insensitive to later writes"""
        self._buf.n_frozen += 1
        fn = self._buf.fn
        bufidx = self._bufidx
        return lambda idx: fn(bufidx(idx))

    def elem(self, *idx):
        return wrap(self.at(*idx))

    # -- python protocol
    def __len__(self):
        if self.ndim and isinstance(self.shape[0], int):
            return self.shape[0]
        raise Unsupported("len() of symbolic array")

    def __iter__(self):
        if self.ndim == 0:
            raise TypeError("iteration over a 0-d array")
        n = self.shape[0]
        if not isinstance(n, int):
            raise Unsupported("iteration over an array axis of symbolic length")
        return iter([self[i] for i in range(n)])

    def __bool__(self):
        if self.ndim == 0:
            return bool(self.elem())
        raise ValueError("The truth value of an array with more than one element is ambiguous.")

    def __float__(self):
        raise Unsupported("float() of symbolic array")

    def __copy__(self):
        return self.copy()

    def __deepcopy__(self, memo):
        return self.copy()

    def __repr__(self):
        return f"SymArr(buf={self._buf.id}, shape={self.shape}, kind={self.kind})"

    __str__ = __repr__

    def __reduce_ex__(self, protocol):
        raise Unsupported("pickling symbolic array")

    def copy(self, order="C"):
        fz = self.frozen()
        return SymArr.fresh(self.shape, fz, self.kind)

    def astype(self, t, copy=True):
        to = _kind_of_type(t)
        fz = self.frozen()
        frm = self.kind
        return SymArr.fresh(self.shape, lambda idx: _cast_expr(fz(idx), frm, to), to)

    def item(self):
        if self.ndim == 0:
            return self.elem()
        raise Unsupported("item() on non-scalar symbolic array")

    def reshape(self, *shape, **kw):
        """only reshapes that add or remove axes of length one (open meshes, column vectors): the entries keep
        their order along the other axes"""
        if kw:
            raise Unsupported(f"reshape with options {sorted(kw)} on symbolic array")
        if len(shape) == 1 and isinstance(shape[0], (tuple, list)):
            shape = tuple(shape[0])
        old_axes = [j for j, n in enumerate(self.shape) if not (isinstance(n, int) and n == 1)]
        new_axes = [j for j, n in enumerate(shape) if not (isinstance(n, int) and n == 1)]
        if any(isinstance(n, int) and n < 0 for n in shape) or len(old_axes) != len(new_axes):
            raise Unsupported("ndarray.reshape on symbolic array (other than adding / removing axes of length one)")
        for a, b in zip(old_axes, new_axes):
            if not same_size(self.shape[a], shape[b]):
                raise Unsupported("ndarray.reshape on symbolic array (other than adding / removing axes of length one)")
        fz = self.frozen()
        nd_old = self.ndim
        zero = z3.IntVal(0)

        def fn(idx):
            src = [zero] * nd_old
            for a, b in zip(old_axes, new_axes):
                src[a] = idx[b]
            return fz(tuple(src))

        out = SymArr.fresh(tuple(shape), fn, self.kind)
        seq = getattr(self, "_seq", None)
        if seq is not None and len(new_axes) == 1:
            out._seq = seq
            out._seq_axis = new_axes[0]
        return out

    def ravel(self, order="C"):
        out = self.flatten(order)
        out._may_alias = "ravel()"
        return out

    def flatten(self, order="C"):
        if order != "C":
            raise Unsupported(f"flatten(order={order!r}) of symbolic array")
        if self.ndim == 1:
            return self.copy()
        co = corder_of(self.shape)
        fz = self.frozen()
        nd = self.ndim
        return SymArr.fresh((co.N,), lambda idx: fz(tuple(co.dec_expr(d, idx[0]) for d in range(nd))), self.kind)

    # -- indexing
    def __getitem__(self, key):
        plan = _index_plan(self, key)
        if plan[0] == "basic":
            _, vaxes, fixed = plan
            res = SymArr(self._buf, vaxes, fixed)
            has_ell = key is Ellipsis or (isinstance(key, tuple) and any(k is Ellipsis for k in key))
            if res.ndim == 0 and not has_ell:
                return res.elem()  # numpy returns a scalar, not a 0-d view, for full integer indexing
            return res
        return _advanced_read(self, plan)

    def __setitem__(self, key, value):
        if getattr(self, "_may_alias", None):
            raise Unsupported(f"write into the result of {self._may_alias} (numpy may return a view of the source there; the model returns a fresh array)")
        plan = _index_plan(self, key)
        if plan[0] == "basic":
            _, vaxes, fixed = plan
            target = SymArr(self._buf, vaxes, fixed)
            _write_view(target, value)
        else:
            _advanced_write(self, plan, value)

    # -- arithmetic
    def _bin(self, other, op, rev=False, outkind=None):
        if isinstance(other, (list, tuple)):
            other = _np.array(other)
        if not _is_arraylike(other):
            return NotImplemented
        a, b = (other, self) if rev else (self, other)
        return _elementwise2(a, b, op, outkind)

    def __add__(self, o):
        return self._bin(o, lambda x, y: x + y)

    def __radd__(self, o):
        return self._bin(o, lambda x, y: x + y, True)

    def __sub__(self, o):
        return self._bin(o, lambda x, y: x - y)

    def __rsub__(self, o):
        return self._bin(o, lambda x, y: x - y, True)

    def __mul__(self, o):
        return self._bin(o, lambda x, y: x * y)

    def __rmul__(self, o):
        return self._bin(o, lambda x, y: x * y, True)

    def __truediv__(self, o):
        return self._bin(o, lambda x, y: to_real(x) / to_real(y), outkind="real")

    def __rtruediv__(self, o):
        return self._bin(o, lambda x, y: to_real(x) / to_real(y), True, outkind="real")

    def __pow__(self, o):
        return self._bin(o, lambda x, y: core.POW(to_real(x), to_real(y)), outkind="real")

    def __rpow__(self, o):
        return self._bin(o, lambda x, y: core.POW(to_real(x), to_real(y)), True, outkind="real")

    def __neg__(self):
        fz, k = self.frozen(), self.kind
        return SymArr.fresh(self.shape, lambda idx: -fz(idx), k)

    def __pos__(self):
        return self.copy()

    def __abs__(self):
        return sym_abs(self)

    def __iadd__(self, o):
        r = self + o
        _write_view(self, r)
        return self

    def __isub__(self, o):
        r = self - o
        _write_view(self, r)
        return self

    def __imul__(self, o):
        r = self * o
        _write_view(self, r)
        return self

    def __itruediv__(self, o):
        r = self / o
        _write_view(self, r)
        return self

    def _cmp(self, o, op):
        if not _is_arraylike(o):
            return NotImplemented
        return _elementwise2(self, o, op, "bool")

    def __lt__(self, o):
        return self._cmp(o, lambda x, y: x < y)

    def __le__(self, o):
        return self._cmp(o, lambda x, y: x <= y)

    def __gt__(self, o):
        return self._cmp(o, lambda x, y: x > y)

    def __ge__(self, o):
        return self._cmp(o, lambda x, y: x >= y)

    def __eq__(self, o):
        return self._cmp(o, lambda x, y: x == y)

    def __ne__(self, o):
        return self._cmp(o, lambda x, y: x != y)

    __hash__ = object.__hash__

    # -- reductions as methods
    def sum(self, axis=None, **kw):
        return sym_sum(self, axis=axis)

    def max(self, axis=None, **kw):
        return sym_max(self, axis=axis)

    def min(self, axis=None, **kw):
        return sym_min(self, axis=axis)

    def any(self, axis=None, **kw):
        return sym_any(self)

    def all(self, axis=None, **kw):
        return sym_all(self)

    def cumsum(self, axis=None, **kw):
        return sym_cumsum(self, axis=axis)

    def diagonal(self, offset=0, axis1=0, axis2=1):
        return sym_diagonal(self, offset, axis1, axis2)

    def transpose(self, *axes):
        if len(axes) == 1 and isinstance(axes[0], (tuple, list)):
            axes = tuple(axes[0])
        if not axes:
            axes = tuple(reversed(range(self.ndim)))
        return SymArr(self._buf, [self._vaxes[a] for a in axes], self._fixed)

    # numpy dispatch safety nets
    def __array_function__(self, func, types, args, kwargs):
        impl = _FUNC_IMPL.get(func)
        if impl is None:
            raise Unsupported(f"numpy function {getattr(func, '__name__', func)} on symbolic array")
        return impl(*args, **kwargs)

    def __array_ufunc__(self, ufunc, method, *inputs, **kwargs):
        if method != "__call__" or kwargs.get("out") is not None:
            raise Unsupported(f"ufunc {ufunc.__name__}.{method} on symbolic array")
        impl = _UFUNC_IMPL.get(ufunc)
        if impl is None:
            raise Unsupported(f"ufunc {ufunc.__name__} on symbolic array")
        return impl(*inputs)


# every other ndarray method must not silently run on the 0-size carrier array
def _install_guards():
    own = set(SymArr.__dict__)
    for name in dir(_np.ndarray):
        if name in own or name.startswith("__"):
            continue
        attr = getattr(_np.ndarray, name)
        if callable(attr):

            def mk(nm):
                def guard(self, *a, **k):
                    raise Unsupported(f"ndarray.{nm} on symbolic array")

                return guard

            setattr(SymArr, name, mk(name))
        else:

            def mkp(nm):
                def guard(self):
                    raise Unsupported(f"ndarray.{nm} of symbolic array")

                return property(guard)

            setattr(SymArr, name, mkp(name))


_install_guards()


def _is_zero(t):
    return isinstance(t, int) and t == 0


def _kind_of_type(t):
    if getattr(t, "__name__", "") == "sh_int":
        return "int"
    if t in (int, _np.int64, _np.int32, _np.int16, "int"):
        return "int"
    if t in (bool, _np.bool_):
        return "bool"
    if t in (float, _np.float64, "float"):
        return "real"
    try:
        dt = _np.dtype(t)
        if dt.kind in "iu":
            return "int"
        if dt.kind == "b":
            return "bool"
        if dt.kind == "f":
            return "real"
    except Exception:
        pass
    raise Unsupported(f"dtype {t}")


def _is_sym(x):
    return isinstance(x, (SymArr, SymInt, SymReal, SymBool))


def _has_sym(*xs):
    for x in xs:
        if _is_sym(x) or isinstance(x, (SymSeq, SymRange)):
            return True
        if isinstance(x, (tuple, list)) and any(_has_sym(y) for y in x):
            return True
    return False


def _is_arraylike(x):
    return isinstance(x, (SymArr, _np.ndarray, numbers.Number, SymBool, _np.generic))


def as_symarr(x) -> SymArr:
    """lift concrete arrays / scalars to SymArr (value semantics; concrete arrays are copied)"""
    if isinstance(x, SymArr):
        return x
    if isinstance(x, (SymReal, SymInt, SymBool)):
        k = _kind_of_value(x)
        e = x.e
        return SymArr.fresh((), lambda idx: e, k)
    if isinstance(x, (list, tuple)):
        if _has_sym(x):
            return sym_array(x)
        x = _np.array(x)
    if isinstance(x, (numbers.Number, _np.generic)):
        k = _kind_of_value(x)
        e = _const_expr(x if not isinstance(x, _np.generic) else x.item(), k)
        return SymArr.fresh((), lambda idx: e, k)
    if isinstance(x, _np.ndarray):
        k = {"f": "real", "i": "int", "u": "int", "b": "bool"}.get(x.dtype.kind)
        if k is None:
            raise Unsupported(f"concrete array of dtype {x.dtype} in symbolic arithmetic")
        data = x.copy()
        shape = tuple(int(s) for s in data.shape)

        def fn(idx, data=data, k=k):
            return _concrete_lookup(data, idx, k)

        return SymArr.fresh(shape, fn, k)
    raise Unsupported(f"cannot lift {type(x)} to symbolic array")


def _concrete_lookup(data, idx, k):
    # idx may be symbolic: build ite chain (small arrays only)
    if all(isinstance(i, int) or (z3.is_expr(i) and z3.is_int_value(z3.simplify(i))) for i in idx):
        ii = tuple(i if isinstance(i, int) else z3.simplify(i).as_long() for i in idx)
        return _const_expr(data[ii].item(), k)
    if data.size > 64:
        raise Unsupported("symbolic index into large concrete array")
    e = None
    for ii in _np.ndindex(*data.shape):
        c = z3.And(*[to_int(a) == b for a, b in zip(idx, ii)]) if ii else z3.BoolVal(True)
        v = _const_expr(data[ii].item(), k)
        e = v if e is None else z3.If(c, v, e)
    return e


# ----------------------------------------------------------------------------------------
# broadcasting and element-wise operations


def broadcast_shapes(*shapes):
    nd = max(len(s) for s in shapes)
    out = []
    for j in range(nd):
        cur = 1
        for s in shapes:
            k = j - (nd - len(s))
            if k < 0:
                continue
            d = s[k]
            if isinstance(cur, int) and cur == 1:
                cur = d
            elif isinstance(d, int) and d == 1:
                pass
            elif d is cur:
                pass
            elif same_size(d, cur):
                pass
            elif is_one(d):
                pass
            elif is_one(cur):
                cur = d
            else:
                raise ValueError("operands could not be broadcast together (symbolic shapes)")
        out.append(cur)
    return tuple(out)


def _bcast_reader(a: SymArr, out_shape):
    """function idx(out) -> element of a under numpy broadcasting to out_shape"""
    fz = a.frozen()
    ashape = a.shape
    off = len(out_shape) - len(ashape)

    def rd(idx):
        sub = []
        for k, d in enumerate(ashape):
            if isinstance(d, int) and d == 1:
                sub.append(0)
            elif isinstance(d, SymInt) and not (isinstance(out_shape[k + off], SymInt) and z3.eq(d.e, out_shape[k + off].e)):
                # equality / one-ness was decided in broadcast_shapes; if d == 1 on this path index 0
                if _known_one(d):
                    sub.append(0)
                else:
                    sub.append(idx[k + off])
            else:
                sub.append(idx[k + off])
        return fz(tuple(sub))

    return rd


def _known_one(d):
    c = ctx()
    r, _ = c._check(d.e != 1)
    return r == z3.unsat


def _elementwise2(a, b, op, outkind=None):
    a = as_symarr(a)
    b = as_symarr(b)
    shape = broadcast_shapes(a.shape, b.shape)
    ra, rb = _bcast_reader(a, shape), _bcast_reader(b, shape)
    ka, kb = a.kind, b.kind
    if outkind is None:
        outkind = _join_kind(ka, kb)
        if outkind == "bool":
            outkind = "int"
    argkind = _join_kind(ka, kb)
    if argkind == "bool":
        argkind = "int"

    def fn(idx):
        x = _cast_expr(ra(idx), ka, argkind)
        y = _cast_expr(rb(idx), kb, argkind)
        return op(x, y)

    if len(shape) == 0:
        # numpy: an elementwise operation whose operands are all zero-dimensional returns a scalar, not an array
        return wrap(fn(()))
    return SymArr.fresh(shape, fn, outkind)


def _elementwise1(a, op, outkind=None):
    a = as_symarr(a)
    fz = a.frozen()
    if a.ndim == 0:
        return wrap(op(fz(())))
    return SymArr.fresh(a.shape, lambda idx: op(fz(idx)), outkind or a.kind)


def sym_abs(a):
    if isinstance(a, (SymReal, SymInt)):
        return abs(a)
    if not isinstance(a, SymArr):
        return _np.abs(a)
    return _elementwise1(a, lambda x: z3.If(x >= 0, x, -x))


def sym_sign(a):
    if isinstance(a, (SymReal, SymInt)):
        a = as_symarr(a)
    if not isinstance(a, SymArr):
        return _np.sign(a)
    one = {"real": z3.RealVal(1), "int": z3.IntVal(1)}[a.kind]
    return _elementwise1(a, lambda x: z3.If(x > 0, one, z3.If(x < 0, -one, 0 * one)))


def sym_minimum(a, b):
    if not _has_sym(a, b):
        return _np.minimum(a, b)
    return _elementwise2(a, b, lambda x, y: z3.If(x <= y, x, y))


def sym_maximum(a, b):
    if not _has_sym(a, b):
        return _np.maximum(a, b)
    return _elementwise2(a, b, lambda x, y: z3.If(x >= y, x, y))


LOG = z3.Function("ln", z3.RealSort(), z3.RealSort())
SQRT = z3.Function("sqrt", z3.RealSort(), z3.RealSort())
EXP = z3.Function("exp", z3.RealSort(), z3.RealSort())


def _unary_uf(uf, real_fn):
    def f(a):
        if isinstance(a, (SymReal, SymInt)):
            return wrap(uf(to_real(a)))
        if isinstance(a, SymArr):
            return _elementwise1(a, lambda x: uf(to_real(x)), "real")
        return real_fn(a)

    return f


sym_log = _unary_uf(LOG, _np.log)
sym_sqrt = _unary_uf(SQRT, _np.sqrt)
sym_exp = _unary_uf(EXP, _np.exp)


# ----------------------------------------------------------------------------------------
# creation


def _shape_tuple(shape):
    if isinstance(shape, (int, SymInt)):
        return (shape,)
    return tuple(shape)


def sym_full(shape, fill_value, dtype=None, **kw):
    shape = _shape_tuple(shape)
    if not _has_sym(shape, fill_value) and not core.active():
        return _np.full(shape, fill_value, dtype=dtype, **kw)
    fv = as_symarr(fill_value)
    k = fv.kind if dtype is None else _kind_of_type(dtype)
    out_shape = broadcast_shapes(shape, fv.shape)
    if len(out_shape) != len(shape):
        raise ValueError("could not broadcast input array from shape into shape")
    rd = _bcast_reader(fv, shape)
    fk = fv.kind
    return SymArr.fresh(shape, lambda idx: _cast_expr(rd(idx), fk, k), k)


def sym_zeros(shape, dtype=float, **kw):
    shape = _shape_tuple(shape)
    if not _has_sym(shape) and not core.active():
        return _np.zeros(shape, dtype=dtype, **kw)
    k = _kind_of_type(dtype)
    z = _const_expr(0, k)
    return SymArr.fresh(shape, lambda idx: z, k)


def sym_ones(shape, dtype=float, **kw):
    shape = _shape_tuple(shape)
    if not _has_sym(shape) and not core.active():
        return _np.ones(shape, dtype=dtype, **kw)
    k = _kind_of_type(dtype)
    o = _const_expr(1, k)
    return SymArr.fresh(shape, lambda idx: o, k)


def sym_zeros_like(a, dtype=None, **kw):
    if not isinstance(a, SymArr):
        return _np.zeros_like(a, dtype=dtype, **kw)
    k = a.kind if dtype is None else _kind_of_type(dtype)
    z = _const_expr(0, k)
    return SymArr.fresh(a.shape, lambda idx: z, k)


def sym_full_like(a, fill_value, dtype=None, **kw):
    if not _has_sym(a, fill_value):
        return _np.full_like(a, fill_value, dtype=dtype, **kw)
    shape = a.shape
    if dtype is None:
        dtype = a.dtype
    try:
        _kind_of_type(dtype)
    except Unsupported:
        # e.g. dtype = type(SymReal) coming from getattr(fill_value, "dtype", type(fill_value))
        if dtype in (SymReal,):
            dtype = float
        elif dtype in (SymInt,):
            dtype = int
        else:
            raise
    return sym_full(tuple(shape), fill_value, dtype=dtype)


def sym_array(obj, dtype=None, **kw):
    if hasattr(obj, "to_symarr"):
        return obj.to_symarr()
    if isinstance(obj, SymSeq):
        # a list of ids of symbolic length: the 1-d integer array of its elements (it remembers the sequence, as the
        # open meshes of np.ix_ do, so that it can serve as an index array)
        arr = SymArr.fresh((obj.n,), (lambda s: (lambda idx: s.fn(to_int(idx[0]))))(obj), "int")
        arr._seq = obj
        arr._seq_axis = 0
        return arr
    if isinstance(obj, SymArr):
        return obj.copy()
    if isinstance(obj, (SymReal, SymInt, SymBool)):
        return as_symarr(obj)
    if isinstance(obj, (list, tuple)) and _has_sym(obj):
        # 1-d list of scalars (possibly symbolic)
        elems = [e.elem() if isinstance(e, SymArr) and e.ndim == 0 else e for e in obj]
        if elems and all(isinstance(e, SymArr) for e in elems):
            return sym_stack(list(elems), axis=0)
        if any(isinstance(e, (list, tuple, _np.ndarray)) for e in elems):
            raise Unsupported("nested symbolic array literal")
        k = "real"
        if all(_kind_of_value(e) == "int" for e in elems):
            k = "int"
        exprs = [_const_expr(e, k) for e in elems]

        def fn(idx):
            return _select(exprs, idx[0])

        return SymArr.fresh((len(elems),), fn, k)
    return _np.array(obj, dtype=dtype, **kw)


def _select(exprs, i):
    if isinstance(i, int):
        return exprs[i]
    i = z3.simplify(to_int(i))
    if z3.is_int_value(i):
        return exprs[i.as_long()]
    e = exprs[-1]
    for j in range(len(exprs) - 2, -1, -1):
        e = z3.If(i == j, exprs[j], e)
    return e


def sym_asarray(obj, dtype=None, **kw):
    if isinstance(obj, SymArr):
        return obj
    if _has_sym(obj):
        return sym_array(obj)
    return _np.asarray(obj, dtype=dtype, **kw)


class _NdarrayMeta(type):
    def __instancecheck__(cls, inst):
        return isinstance(inst, _np.ndarray)

    def __subclasscheck__(cls, sub):
        return issubclass(sub, _np.ndarray)


_uninit = itertools.count()


class ndarray_shim(metaclass=_NdarrayMeta):
    """np.ndarray as seen by flodym modules: isinstance works; np.ndarray(shape) gives an
    uninitialised array (arbitrary contents = fresh uninterpreted function)."""

    def __new__(cls, shape, dtype=float, **kw):
        shape = _shape_tuple(shape)
        if not _has_sym(shape) and not core.active():
            return _np.ndarray(shape, dtype=dtype, **kw)
        return SymArr.input(f"uninit{next(_uninit)}", shape, _kind_of_type(dtype))


def sym_shares_memory(a, b, *args, **kw):
    """np.shares_memory / np.may_share_memory: two symbolic arrays share memory iff they are views of one buffer (the
    model does not track which part of the buffer a view covers: overlapping or not is not distinguished)"""
    if not _has_sym(a, b):
        return _np.may_share_memory(a, b)
    if isinstance(a, SymArr) and isinstance(b, SymArr):
        return a._buf is b._buf
    return False


def sym_take(a, indices, axis=None, **kw):
    """np.take(a, indices, axis) = a[(:,)*axis + (indices,)]"""
    if not _has_sym(a, indices):
        return _np.take(a, indices, axis=axis, **kw)
    if kw:
        raise Unsupported(f"np.take with options {sorted(kw)} on symbolic arrays")
    a = as_symarr(a)
    if axis is None:
        if a.ndim != 1:
            raise Unsupported("np.take on a flattened symbolic array")
        axis = 0
    axis = axis % a.ndim
    return a[(slice(None),) * axis + (indices,)]


def sym_delete(a, obj, axis=None):
    """np.delete(a, <one position>, axis) along an axis of concrete length"""
    if not _has_sym(a, obj):
        return _np.delete(a, obj, axis=axis)
    a = as_symarr(a)
    if axis is None or not isinstance(obj, int) or isinstance(obj, bool):
        raise Unsupported("np.delete on a symbolic array (other than one position along a given axis)")
    axis = axis % a.ndim
    L = a.shape[axis]
    if not isinstance(L, int):
        raise Unsupported("np.delete along an axis of symbolic length")
    if not -L <= obj < L:
        raise IndexError(f"index {obj} is out of bounds for axis {axis} with size {L}")
    obj %= L
    pre = (slice(None),) * axis
    parts = []
    if obj > 0:
        parts.append(a[pre + (slice(0, obj),)])
    if obj < L - 1:
        parts.append(a[pre + (slice(obj + 1, L),)])
    if not parts:
        shape = list(a.shape)
        shape[axis] = 0
        return SymArr.fresh(tuple(shape), lambda idx: _const_expr(0, a.kind), a.kind)
    if len(parts) == 1:
        return parts[0].copy()
    return sym_concatenate(parts, axis=axis)


def sym_empty(shape, dtype=float, **kw):
    """np.empty: arbitrary contents (a fresh uninterpreted function), like np.ndarray(shape)"""
    shape = _shape_tuple(shape)
    if not _has_sym(shape) and not core.active():
        return _np.empty(shape, dtype=dtype, **kw)
    return SymArr.input(f"uninit{next(_uninit)}", shape, _kind_of_type(dtype))


def sym_empty_like(a, dtype=None, **kw):
    if not isinstance(a, SymArr):
        return _np.empty_like(a, dtype=dtype, **kw)
    k = a.kind if dtype is None else _kind_of_type(dtype)
    return SymArr.input(f"uninit{next(_uninit)}", a.shape, k)


def sym_ones_like(a, dtype=None, **kw):
    if not isinstance(a, SymArr):
        return _np.ones_like(a, dtype=dtype, **kw)
    k = a.kind if dtype is None else _kind_of_type(dtype)
    o = _const_expr(1, k)
    return SymArr.fresh(a.shape, lambda idx: o, k)


# ----------------------------------------------------------------------------------------
# indexing


def _norm_key(a_ndim, key):
    if not isinstance(key, tuple):
        key = (key,)
    key = list(key)
    n_ell = sum(1 for k in key if k is Ellipsis)
    if n_ell > 1:
        raise IndexError("an index can only have a single ellipsis")
    n_consumed = sum(1 for k in key if k is not None and k is not Ellipsis)
    if n_consumed > a_ndim:
        raise IndexError("too many indices for array")
    if n_ell:
        i = key.index(Ellipsis)
        key[i : i + 1] = [slice(None)] * (a_ndim - n_consumed)
    else:
        key += [slice(None)] * (a_ndim - n_consumed)
    return key


def _is_scalar_index(k):
    return isinstance(k, (int, SymInt, _np.integer)) and not isinstance(k, bool)


def _is_index_array(k):
    if isinstance(k, (list, _np.ndarray)) and not isinstance(k, SymArr):
        return True
    if isinstance(k, SymArr):
        return True
    if isinstance(k, SymSeq):
        return True
    return False


def _index_plan(a: SymArr, key):
    key = _norm_key(a.ndim, key)
    if any(_is_index_array(k) for k in key):
        return ("adv", key)
    vaxes = []
    fixed = dict(a._fixed)
    src = iter(a._vaxes)
    for k in key:
        if k is None:
            vaxes.append(("n",))
            continue
        ax = next(src)
        if _is_scalar_index(k):
            kk = k if isinstance(k, SymInt) else int(k)
            if ax[0] == "b":
                n = ax[3]
                idx = _norm_scalar_index(kk, n)
                fixed[ax[1]] = unwrap(idx + ax[2]) if not _is_zero(ax[2]) else unwrap(idx)
            elif ax[0] in ("n", "r"):
                _norm_scalar_index(kk, 1 if ax[0] == "n" else ax[1])
            continue
        if isinstance(k, slice):
            if ax[0] != "b":
                if k == slice(None):
                    vaxes.append(ax)
                    continue
                raise Unsupported("slicing a broadcast axis")
            _, bk, off, n = ax
            start, stop = _norm_slice(k, n)
            if start is None:
                vaxes.append(ax)
            else:
                vaxes.append(("b", bk, off + start if not _is_zero(off) else start, stop - start))
            continue
        raise IndexError(f"unsupported index {k!r}")
    return ("basic", vaxes, fixed)


def _norm_scalar_index(k, n):
    """numpy semantics for an integer index on an axis of length n: negative wraps, out of range raises"""
    if isinstance(k, int) and isinstance(n, int):
        if k < -n or k >= n:
            raise IndexError("index out of bounds")
        return k + n if k < 0 else k
    if isinstance(k, int) and k < 0:
        idx = n + k
        if not bool(idx >= 0):
            raise IndexError("index out of bounds")
        return idx
    inb = (k >= 0) & (k < n) if not isinstance(k, int) else (k < n)
    if not bool(inb):
        raise IndexError("index out of bounds")
    return k


def _valid(cond):
    """cond (SymBool / bool) holds on the current path"""
    if isinstance(cond, bool):
        return cond
    if not core.active():
        return False
    c = ctx()
    e = core.as_z3_bool(cond)
    c.instantiate(e)
    r, _ = c._check(z3.Not(e))
    return r == z3.unsat


def _norm_slice(s, n):
    if s.step not in (None, 1):
        raise Unsupported("slice with step")
    if s.start is None and s.stop is None:
        return None, None

    def clamp(v):
        if isinstance(v, int) and v < 0:
            v = n + v
            if isinstance(v, int):
                return max(v, 0)
            return v if _valid(v >= 0) else core.site(v >= 0, v, 0)
        if isinstance(v, int) and isinstance(n, int):
            return min(v, n)
        if isinstance(v, int) and v == 0:
            return 0
        # symbolic: min(v, n), resolved when the path decides it
        if _valid(v <= n):
            return v
        if _valid(v >= n):
            return n
        return core.site(v <= n, v, n)

    start = 0 if s.start is None else clamp(s.start)
    stop = n if s.stop is None else clamp(s.stop)
    # empty if stop < start
    if isinstance(start, int) and isinstance(stop, int):
        stop = max(stop, start)
    elif not _valid(stop >= start):
        stop = core.site(stop >= start, stop, start)
    return start, stop


def _write_view(target: SymArr, value):
    """target[...] = value  (numpy broadcasting of value to target.shape)"""
    if any(a[0] == "r" for a in target._vaxes):
        raise ValueError("assignment destination is read-only")
    v = as_symarr(value)
    tshape = target.shape
    if v.ndim > len(tshape):
        # numpy allows leading length-1 axes to be dropped
        extra = v.ndim - len(tshape)
        for d in v.shape[:extra]:
            if not is_one(d):
                raise ValueError("could not broadcast input array from shape into shape")
        v = v[(0,) * extra + (Ellipsis,)]
    bshape = broadcast_shapes(tshape, v.shape)
    for x, y in zip(bshape, tshape):
        if not (x is y or same_size(x, y)):
            raise ValueError("could not broadcast input array from shape into shape")
    rd = _bcast_reader(v, tshape)
    vk = v.kind
    buf = target._buf
    bk = buf.kind
    if bk == "int" and vk == "real":
        raise Unsupported("writing reals into an int array")
    old = buf.fn
    vaxes = list(target._vaxes)
    fixed = dict(target._fixed)

    def new(bi):
        conds = []
        for k, t in fixed.items():
            conds.append(to_int(bi[k]) == to_int(t))
        vi = []
        for a in vaxes:
            if a[0] == "b":
                _, k, off, n = a
                loc = to_int(bi[k]) - to_int(off) if not _is_zero(off) else to_int(bi[k])
                conds.append(loc >= 0)
                conds.append(loc < _zsize(n))
                vi.append(loc)
            else:
                vi.append(0)
        val = _cast_expr(rd(tuple(vi)), vk, bk)
        if not conds:
            return val
        return z3.If(z3.And(*conds), val, old(bi))

    buf.fn = new
    buf.version += 1


_seq_ids = itertools.count()


class SymSeq(list):
    """A list of ints (positions) of symbolic length n >= 1, given by an element function.
    It *is* a `list` for isinstance purposes (the real code tests isinstance(ids, list)); its
    carrier list is empty and every list method that would look at it is guarded.

    fn(j): element at j (z3 Int -> z3 Int).  inv(x): a position j with fn(j) == x if there is one."""

    def __init__(self, n, fn, inv=None, name=None):
        super().__init__()
        self.n = n
        self.fn = fn
        self.inv = inv
        self.name = name or f"seq{next(_seq_ids)}"

    @staticmethod
    def define(n, body_of, facts_of=None, name=None, also_at=()):
        """sequence seq(j) = body_of(j) for 0 <= j < n as an uninterpreted function with trigger facts,
        plus a choice function for the inverse"""
        name = name or f"seq{next(_seq_ids)}"
        f = z3.Function(f"{name}", z3.IntSort(), z3.IntSort())
        g = z3.Function(f"{name}_inv", z3.IntSort(), z3.IntSort())
        zn = _zsize(n)
        c = ctx()

        def trig(j):
            rng = z3.And(j >= 0, j < zn)
            parts = [f(j) == body_of(j)]
            if facts_of is not None:
                parts += list(facts_of(j))
            e = f(j)
            parts += [g(e) >= 0, g(e) < zn, f(g(e)) == e]
            return z3.Implies(rng, z3.And(*parts))

        c.add_trigger(name, trig)
        # further instantiation points: (symbol, args -> position term), e.g. pos_S(x) for a sequence
        # defined over the item list S: whoever asks "is x in S" gets the sequence's facts at that position
        for sym, pos_of in also_at:
            c.add_trigger(sym, (lambda pos_of: (lambda *args: trig(pos_of(*args))))(pos_of))
        return SymSeq(n, lambda j: f(to_int(j)), inv=lambda x: g(to_int(x)), name=name)

    def __symlen__(self):
        return self.n

    def __len__(self):
        if isinstance(self.n, int):
            return self.n
        raise Unsupported("len() of symbolic sequence outside shimmed module")

    def __iter__(self):
        raise Unsupported("iteration over symbolic-length sequence")

    def __getitem__(self, j):
        if isinstance(j, slice):
            raise Unsupported("slice of symbolic sequence")
        return wrap(self.fn(to_int(j)))

    def __bool__(self):
        return True

    def __eq__(self, o):
        return o is self

    __hash__ = object.__hash__

    def __repr__(self):
        return f"SymSeq({self.name}, n={self.n})"

    def __copy__(self):
        return self

    def __deepcopy__(self, memo):
        return self


def _guard_list_methods():
    for nm in ("append", "extend", "insert", "remove", "pop", "index", "count", "sort", "reverse", "__contains__", "__setitem__", "__delitem__", "__add__", "__mul__", "__reversed__"):
        def mk(nm):
            def guard(self, *a, **k):
                raise Unsupported(f"list.{nm} on symbolic sequence")
            return guard
        setattr(SymSeq, nm, mk(nm))


_guard_list_methods()


class SymRange:
    """range(lo, hi) with a symbolic bound.  `list(range(n))` gives the identity sequence.
    Iterating it in a `for` statement *cuts the loop* with the pending loop contract (invariant):
      entry:        prove inv(lo)
      one generic iteration: havoc what the loop modifies, assume lo <= i < hi and inv(i), run the
                    real body once, prove inv(i+1)
      exit:         havoc, assume inv(hi)
    so the loop is never unrolled and the bound stays symbolic."""

    def __init__(self, lo, hi):
        self.lo = lo
        self.hi = hi
        self.n = hi if (isinstance(lo, int) and lo == 0) else hi - lo

    def __symlen__(self):
        return self.n

    def __iter__(self):
        import sys

        c = ctx()
        if not c.loop_contracts:
            raise Unsupported("range() over symbolic bound: loop needs an invariant (no loop contract pending)")
        lc = c.loop_contracts.pop(0)
        return _CutLoop(self.lo, self.hi, lc, sys._getframe(1))


class _CutLoop:
    def __init__(self, lo, hi, lc, frame):
        self.lo, self.hi, self.lc, self.frame = lo, hi, lc, frame
        self.state = 0
        self.i = None

    def __iter__(self):
        return self

    def __next__(self):
        c = ctx()
        L = self.frame.f_locals
        if self.state == 0:
            self.lc.entry(L, self.lo)
            i = wrap(c.fresh("i", "int"))
            c.assume(z3.And(to_int(i) >= to_int(self.lo), to_int(i) < to_int(self.hi)))
            self.lc.havoc(L)
            self.lc.assume_inv(L, i)
            self.state = 1
            self.i = i
            return i
        if self.state == 1:
            self.lc.preserve(L, self.i + 1)
            self.lc.havoc(L)
            self.lc.assume_inv(L, self.hi)
            self.state = 2
            raise StopIteration
        raise StopIteration


_havoc_ids = itertools.count()


def havoc(arr, name="h"):
    """forget the contents of a symbolic array's buffer: arbitrary contents (fresh function)"""
    buf = arr._buf
    nm = f"{name}!{next(_havoc_ids)}"
    sorts = [z3.IntSort()] * buf.ndim
    rng = {"real": z3.RealSort(), "int": z3.IntSort(), "bool": z3.BoolSort()}[buf.kind]
    if buf.ndim:
        f = z3.Function(nm, *sorts, rng)
        buf.fn = lambda bi: f(*[to_int(i) for i in bi])
    else:
        cst = z3.Const(nm, rng)
        buf.fn = lambda bi: cst
        f = None
    buf.version += 1
    return nm, f


def _adv_parts(a: SymArr, key):
    """Describe advanced index: list over source axes of ('slice', start, len) | ('idx', reader, shape)"""
    parts = []
    src = iter(a.shape)
    for k in key:
        if k is None:
            parts.append(("new",))
            continue
        n = next(src)
        if _is_scalar_index(k):
            kk = k if isinstance(k, SymInt) else int(k)
            idx = _norm_scalar_index(kk, n)
            e = to_int(idx)
            parts.append(("idx", (lambda e: (lambda bidx: e))(e), ()))
        elif isinstance(k, slice):
            start, stop = _norm_slice(k, n)
            if start is None:
                parts.append(("slice", 0, n))
            else:
                parts.append(("slice", start, stop - start))
        elif isinstance(k, SymSeq):
            parts.append(("idx", (lambda s: (lambda bidx: s.fn(to_int(bidx[0]))))(k), (k.n,), k))
        else:
            arr = as_symarr(k if not isinstance(k, list) else (sym_array(k) if _has_sym(k) else _np.array(k, dtype=int)))
            if arr.kind == "bool":
                raise Unsupported("boolean mask indexing")
            if arr.kind != "int":
                raise IndexError("arrays used as indices must be of integer type")
            fz = arr.frozen()
            seq = getattr(k, "_seq", None)
            if seq is not None:
                parts.append(("idx", fz, arr.shape, seq))
            else:
                parts.append(("idx", fz, arr.shape))
    return parts


def _adv_layout(parts):
    """numpy rule: broadcast index arrays -> shape B; adjacent => in place, else first."""
    idx_pos = [i for i, p in enumerate(parts) if p[0] == "idx"]
    bshape = broadcast_shapes(*[parts[i][2] for i in idx_pos])
    adjacent = idx_pos == list(range(idx_pos[0], idx_pos[-1] + 1))
    return idx_pos, bshape, adjacent


def _adv_index_maps(parts, idx_pos, bshape, adjacent):
    """result shape and a function ridx -> source index tuple"""
    res_axes = []  # ('B', j) | ('S', partno) | ('N',)
    if adjacent:
        for i, p in enumerate(parts):
            if p[0] == "idx":
                if i == idx_pos[0]:
                    res_axes += [("B", j) for j in range(len(bshape))]
            elif p[0] == "slice":
                res_axes.append(("S", i))
            else:
                res_axes.append(("N",))
    else:
        res_axes += [("B", j) for j in range(len(bshape))]
        for i, p in enumerate(parts):
            if p[0] == "slice":
                res_axes.append(("S", i))
            elif p[0] == "new":
                res_axes.append(("N",))
    shape = []
    for ra in res_axes:
        if ra[0] == "B":
            shape.append(bshape[ra[1]])
        elif ra[0] == "S":
            shape.append(parts[ra[1]][2])
        else:
            shape.append(1)

    def src_index(ridx):
        bidx = [None] * len(bshape)
        sl = {}
        for t, ra in zip(ridx, res_axes):
            if ra[0] == "B":
                bidx[ra[1]] = t
            elif ra[0] == "S":
                sl[ra[1]] = t
        out = []
        for i, p in enumerate(parts):
            if p[0] == "idx":
                pshape = p[2]
                off = len(bshape) - len(pshape)
                sub = []
                for k, d in enumerate(pshape):
                    if isinstance(d, int) and d == 1:
                        sub.append(0)
                    elif isinstance(d, SymInt) and _known_one(d) and not (bshape[k + off] is d):
                        sub.append(0)
                    else:
                        sub.append(bidx[k + off])
                out.append(p[1](tuple(sub)))
            elif p[0] == "slice":
                st = p[1]
                out.append(to_int(sl[i]) + to_int(st) if not _is_zero(st) else sl[i])
        return tuple(out)

    return tuple(shape), res_axes, src_index


def _adv_check_bounds(a, parts):
    """numpy raises IndexError for out-of-range entries of index arrays. For SymSeq the range
    fact is part of its construction; for explicit small arrays it is decided here."""
    return


def _advanced_read(a: SymArr, plan):
    key = plan[1]
    parts = _adv_parts(a, key)
    idx_pos, bshape, adjacent = _adv_layout(parts)
    shape, res_axes, src_index = _adv_index_maps(parts, idx_pos, bshape, adjacent)
    fz = a.frozen()
    return SymArr.fresh(shape, lambda ridx: fz(src_index(ridx)), a.kind)


def _advanced_write(a: SymArr, plan, value):
    """a[key] = value with index arrays. Supported when every index array is either a scalar,
    or depends on exactly one broadcast axis through an injective SymSeq / explicit list with
    pairwise distinct entries (outer-product 'mesh' form, or a single list)."""
    key = plan[1]
    parts = _adv_parts(a, key)
    idx_pos, bshape, adjacent = _adv_layout(parts)
    shape, res_axes, src_index = _adv_index_maps(parts, idx_pos, bshape, adjacent)
    v = as_symarr(value)
    if v.ndim > len(shape):
        extra = v.ndim - len(shape)
        for d in v.shape[:extra]:
            if not is_one(d):
                raise ValueError("shape mismatch: value array could not be broadcast to indexing result")
        v = v[(0,) * extra + (Ellipsis,)]
    b2 = broadcast_shapes(shape, v.shape)
    for x, y in zip(b2, shape):
        if not (x is y or same_size(x, y)):
            raise ValueError("shape mismatch: value array could not be broadcast to indexing result")
    rd = _bcast_reader(v, shape)
    # inverse: from source index to result index
    inverses = _adv_inverse(a, key, parts, idx_pos, bshape, res_axes)
    vk, bk = v.kind, a.kind
    # express through a view-level write: build full-view new function then write through
    full = SymArr(a._buf, a._vaxes, a._fixed)
    fz_old = full.frozen()

    def newfn(sidx):
        cond, ridx = inverses(sidx)
        val = _cast_expr(rd(ridx), vk, bk)
        return z3.If(cond, val, fz_old(sidx))

    tmp = SymArr.fresh(full.shape, newfn, bk)
    _write_view(full, tmp)


def _adv_inverse(a, key, parts, idx_pos, bshape, res_axes):
    """returns f(sidx) -> (cond, ridx): cond = sidx is addressed; ridx = result index addressing it."""
    # Which broadcast axis does each idx part depend on?
    dep = {}
    for i in idx_pos:
        pshape = parts[i][2]
        off = len(bshape) - len(pshape)
        axes = [k + off for k, d in enumerate(pshape) if not (isinstance(d, int) and d == 1)]
        if len(axes) > 1:
            raise Unsupported("advanced write with multi-axis index array")
        dep[i] = axes[0] if axes else None
    keyparts = [k for k in key if k is not None]
    # groups of index arrays sharing a broadcast axis of symbolic length without a known inverse:
    # one k-ary choice function  rowof(s_1..s_k) = some position j with index_i(j) == s_i for all i
    groups = {}
    for i in idx_pos:
        ax = dep[i]
        if ax is None:
            continue
        p = parts[i]
        seq = p[3] if len(p) > 3 else None
        if (seq is None or seq.inv is None) and not isinstance(bshape[ax], int):
            groups.setdefault(ax, []).append(i)
    rowof = {}
    for ax, members in groups.items():
        nm = f"rowof!{next(_inv_counter)}"
        f = z3.Function(nm, *([z3.IntSort()] * len(members)), z3.IntSort())
        rowof[ax] = (f, members)
        if core.active():
            c = ctx()
            c.adv_writes = getattr(c, "adv_writes", [])
            c.adv_writes.append({"rowof": f, "n": bshape[ax], "readers": [(lambda p, ax: (lambda j: p[1](tuple(to_int(j) if (k + len(bshape) - len(p[2])) == ax else 0 for k in range(len(p[2]))))))(parts[i], ax) for i in members]})

    def inv(sidx):
        conds = []
        bidx = [0] * len(bshape)
        slv = {}
        solved = {}
        # source index of every non-new part, by part number
        src_of = {}
        si0 = 0
        for i0, p0 in enumerate(parts):
            if p0[0] == "new":
                continue
            src_of[i0] = to_int(sidx[si0])
            si0 += 1
        for ax, (f, members) in rowof.items():
            j = f(*[src_of[i] for i in members])
            solved[ax] = j
            conds += [j >= 0, j < _zsize(bshape[ax])]
        si = 0
        for i, p in enumerate(parts):
            if p[0] == "new":
                continue
            s = to_int(sidx[si])
            si += 1
            if p[0] == "slice":
                st, ln = p[1], p[2]
                loc = s - to_int(st) if not _is_zero(st) else s
                conds += [loc >= 0, loc < _zsize(ln)]
                slv[i] = loc
            else:
                ax = dep[i]
                if ax is None:
                    conds.append(s == p[1]((0,) * len(p[2])))
                else:
                    n = bshape[ax]
                    if ax in solved:
                        # zip-style: another index array already fixed the position on this broadcast axis
                        j = solved[ax]
                    else:
                        j = _invert_index(p, ax, s, n)
                        solved[ax] = j
                        conds += [j >= 0, j < _zsize(n)]
                    sub = tuple(j if (k + len(bshape) - len(p[2])) == ax else 0 for k in range(len(p[2])))
                    conds.append(p[1](sub) == s)
                    bidx[ax] = j
        ridx = []
        for ra in res_axes:
            if ra[0] == "B":
                ridx.append(bidx[ra[1]])
            elif ra[0] == "S":
                ridx.append(slv[ra[1]])
            else:
                ridx.append(0)
        return z3.And(*conds) if conds else z3.BoolVal(True), tuple(ridx)

    return inv


def _invert_index(part, ax, s, n):
    """A position j in [0,n) with index(j) == s, if there is one (choice function)."""
    seq = part[3] if len(part) > 3 else None
    if seq is not None and seq.inv is not None:
        return seq.inv(s)
    pshape = part[2]
    nn = pshape[ax - (0)] if False else n
    if isinstance(nn, int):
        # explicit list: ite chain over its entries (first match; entries distinct is a precondition)
        off = None
        k_ax = [k for k, d in enumerate(pshape) if not (isinstance(d, int) and d == 1)][0]
        e = z3.IntVal(-1)
        for j in range(nn - 1, -1, -1):
            sub = tuple(j if k == k_ax else 0 for k in range(len(pshape)))
            e = z3.If(part[1](sub) == s, z3.IntVal(j), e)
        return e
    raise Unsupported("advanced write through symbolic-length index array without inverse")


# ----------------------------------------------------------------------------------------
# einsum, tile, reductions


def sym_einsum(subscripts, *operands, **kw):
    if not _has_sym(*operands):
        return _np.einsum(subscripts, *operands, **kw)
    if kw:
        raise Unsupported(f"einsum kwargs {kw}")
    if not isinstance(subscripts, str):
        raise Unsupported("einsum with non-string subscripts")
    subscripts = subscripts.replace(" ", "")
    if "->" not in subscripts:
        raise Unsupported("einsum without explicit output")
    lhs, out = subscripts.split("->")
    ins = lhs.split(",")
    if len(ins) != len(operands):
        raise ValueError("more operands provided to einstein sum function than specified in the subscripts string")
    ops = [as_symarr(o) for o in operands]
    # expand ellipsis
    ell_n = None
    exp_ins = []
    for s, o in zip(ins, ops):
        if "..." in s:
            named = len(s.replace("...", ""))
            n_ell = o.ndim - named
            if n_ell < 0:
                raise ValueError("einstein sum subscripts string contains too many subscripts for operand")
            ell_n = n_ell if ell_n is None else max(ell_n, n_ell)
            ell_letters = [f"#{j}" for j in range(n_ell)]
            i = s.index("...")
            letters = list(s[:i]) + ell_letters + list(s[i + 3 :])
            if "..." in s[i + 3 :]:
                raise ValueError("einstein sum subscripts string contains a '.' that is not part of an ellipsis")
        else:
            letters = list(s)
        for ch in letters:
            if not (ch.startswith("#") or (ch.isalpha() and ch.isascii())):
                raise ValueError(f"invalid subscript '{ch}' in einstein sum subscripts string, subscripts must be letters")
        if len(letters) != o.ndim:
            raise ValueError("einstein sum subscripts string does not match operand dimensions")
        exp_ins.append(letters)
    if "..." in out:
        i = out.index("...")
        out_letters = list(out[:i]) + [f"#{j}" for j in range(ell_n or 0)] + list(out[i + 3 :])
    else:
        out_letters = list(out)
        if ell_n:
            raise ValueError("output has more dimensions than subscripts given in einstein sum, but no '...' ellipsis provided to broadcast the extra dimensions.")
    if len(set(out_letters)) != len(out_letters):
        raise ValueError("einstein sum subscripts string includes output subscript multiple times")
    sizes = {}
    for letters, o in zip(exp_ins, ops):
        for ch, d in zip(letters, o.shape):
            if ch in sizes:
                if not (sizes[ch] is d or same_size(sizes[ch], d)):
                    if is_one(d):
                        raise Unsupported("einsum broadcasting of length-1 axes")
                    if is_one(sizes[ch]):
                        raise Unsupported("einsum broadcasting of length-1 axes")
                    raise ValueError("operands could not be broadcast together with remapped shapes")
            else:
                sizes[ch] = d
    for ch in out_letters:
        if ch not in sizes:
            raise ValueError(f"einstein sum subscripts string included output subscript '{ch}' which never appeared in an input")
    contracted = [ch for ch in sizes if ch not in out_letters]
    # view case: single operand, nothing contracted, no repeated letters
    if len(ops) == 1 and not contracted and len(set(exp_ins[0])) == len(exp_ins[0]):
        o = ops[0]
        perm = [exp_ins[0].index(ch) for ch in out_letters]
        return SymArr(o._buf, [o._vaxes[p] for p in perm], o._fixed)
    fzs = [o.frozen() for o in ops]
    kinds = [o.kind for o in ops]
    out_shape = tuple(sizes[ch] for ch in out_letters)

    def fn(idx):
        env = {ch: to_int(i) for ch, i in zip(out_letters, idx)}
        bvars = []
        for ch in contracted:
            v = core.bound_var(ch)
            env[ch] = v
            bvars.append((v, 0, sizes[ch]))
        prod = None
        for letters, fz, k in zip(exp_ins, fzs, kinds):
            e = to_real(_cast_expr(fz(tuple(env[ch] for ch in letters)), k, "real") if k != "real" else fz(tuple(env[ch] for ch in letters)))
            prod = e if prod is None else prod * e
        return mk_sum(bvars, prod) if bvars else prod

    return SymArr.fresh(out_shape, fn, "real")


def sym_tile(a, reps):
    if not _has_sym(a, reps):
        return _np.tile(a, reps)
    a = as_symarr(a)
    if isinstance(reps, (int, SymInt)):
        reps = (reps,)
    reps = list(reps)
    nd = max(len(reps), a.ndim)
    reps = [1] * (nd - len(reps)) + reps
    src = a
    if a.ndim < nd:
        src = a[(None,) * (nd - a.ndim) + (Ellipsis,)]
    sshape = src.shape
    fz = src.frozen()
    out_shape = tuple(s * r if not (isinstance(r, int) and r == 1) else s for s, r in zip(sshape, reps))

    def fn(idx):
        sub = []
        for i, s, r in zip(idx, sshape, reps):
            if isinstance(r, int) and r == 1:
                sub.append(i)
            elif isinstance(s, int) and s == 1:
                sub.append(0)
            else:
                sub.append(to_int(i) % _zsize(s))
        return fz(tuple(sub))

    return SymArr.fresh(out_shape, fn, a.kind)


_red_counter = itertools.count()


def sym_sum(a, axis=None, **kw):
    if isinstance(a, (list, tuple)) and not _has_sym(a):
        return _np.sum(a, axis=axis, **kw)
    if not isinstance(a, SymArr):
        if _has_sym(a):
            a = as_symarr(a)
        else:
            return _np.sum(a, axis=axis, **kw)
    fz = a.frozen()
    shape = a.shape
    k = a.kind
    if axis is None:
        axes = list(range(a.ndim))
    elif isinstance(axis, int):
        axes = [axis % a.ndim if a.ndim else 0]
    else:
        axes = [ax % a.ndim for ax in axis]
    keep = [j for j in range(a.ndim) if j not in axes]
    out_shape = tuple(shape[j] for j in keep)

    def fn(idx):
        full = [None] * len(shape)
        for j, i in zip(keep, idx):
            full[j] = to_int(i)
        bv = []
        for j in axes:
            v = core.bound_var(f"r{j}")
            full[j] = v
            bv.append((v, 0, shape[j]))
        body = _cast_expr(fz(tuple(full)), k, "real")
        return mk_sum(bv, body)

    res = SymArr.fresh(out_shape, fn, "real")
    if not out_shape:
        return res.elem()
    return res


def sym_cumsum(a, axis=None, **kw):
    if not isinstance(a, SymArr):
        return _np.cumsum(a, axis=axis, **kw)
    if axis is None:
        raise Unsupported("cumsum over flattened symbolic array")
    axis = axis % a.ndim
    fz = a.frozen()
    k = a.kind

    def fn(idx):
        v = core.bound_var(f"c{axis}")
        full = list(idx)
        full[axis] = v
        return mk_sum([(v, 0, to_int(idx[axis]) + 1)], _cast_expr(fz(tuple(full)), k, "real"))

    return SymArr.fresh(a.shape, fn, "real")


def sym_diff(a, n=1, axis=-1, prepend=None, append=None):
    if not isinstance(a, SymArr):
        if _has_sym(a):
            raise Unsupported("diff of symbolic list")
        return _np.diff(a, n=n, axis=axis, prepend=prepend, append=append) if prepend is not None or append is not None else _np.diff(a, n=n, axis=axis)
    if n != 1 or append is not None:
        raise Unsupported("diff with n!=1 or append")
    axis = axis % a.ndim
    fz = a.frozen()
    shape = list(a.shape)
    if prepend is None:
        shape[axis] = shape[axis] - 1

        def fn(idx):
            hi = list(idx)
            hi[axis] = to_int(idx[axis]) + 1
            return fz(tuple(hi)) - fz(tuple(idx))

        return SymArr.fresh(tuple(shape), fn, a.kind)
    if not isinstance(prepend, (int, float)):
        raise Unsupported("diff with array prepend")
    pre = _const_expr(prepend, a.kind)

    def fn2(idx):
        lo = list(idx)
        lo[axis] = to_int(idx[axis]) - 1
        return fz(tuple(idx)) - z3.If(to_int(idx[axis]) == 0, pre, fz(tuple(lo)))

    return SymArr.fresh(tuple(shape), fn2, a.kind)


# max / min / any / all over symbolic extents: canonical uninterpreted reductions with the
# characteristic facts instantiated on demand by contracts (see fvc.lemmas)
_RED_APPS = {}


def _opaque_reduction(tag, a: SymArr):
    import hashlib

    vars_ = [z3.Int(f"q!{j}") for j in range(a.ndim)]
    body = a.at(*vars_)
    shape = [_zsize(s) for s in a.shape]
    subs = [(v, z3.Int(f"__B{j}")) for j, v in enumerate(vars_)]
    rb = z3.substitute(body, *subs)
    frees = []
    seen = set()
    for ex in [rb] + shape:
        for c in core._free_consts(ex):
            if c.decl().name().startswith("__B"):
                continue
            if c.get_id() not in seen:
                seen.add(c.get_id())
                frees.append(c)
    psubs = [(c, z3.Const(f"__P{j}", c.sort())) for j, c in enumerate(frees)]
    canon = tag + "|" + "|".join((z3.substitute(ex, *psubs) if psubs else ex).sexpr() for ex in [rb] + shape)
    h = hashlib.sha1(canon.encode()).hexdigest()[:12]
    rng = z3.BoolSort() if tag in ("ANY", "ALL") else (z3.RealSort() if a.kind == "real" else z3.IntSort())
    name = f"{tag}_{h}"
    if frees:
        app = z3.Function(name, *[c.sort() for c in frees], rng)(*frees)
    else:
        app = z3.Const(name, rng)
    fz = a.frozen()
    _RED_APPS[app.sexpr()] = (tag, fz, a.shape, a.kind)
    if core.active() and tag in ("ANY", "ALL"):
        c = ctx()
        ws = [z3.Int(f"w_{name}_{j}") for j in range(a.ndim)]
        inr = [w >= 0 for w in ws] + [w < s for w, s in zip(ws, shape)]
        if tag == "ANY":
            c.assume(z3.Implies(app, z3.And(*(inr + [fz(tuple(ws))]))))
        else:
            c.assume(z3.Implies(z3.Not(app), z3.And(*(inr + [z3.Not(fz(tuple(ws)))]))))
    if core.active() and tag in ("MAX", "MIN"):
        # definition of max/min over a non-empty index range: the value is attained at some index
        c = ctx()
        ws = [z3.Int(f"w_{name}_{j}") for j in range(a.ndim)]
        nonempty = z3.And(*[s > 0 for s in shape]) if shape else z3.BoolVal(True)
        c.assume(z3.Implies(nonempty, z3.And(*([w >= 0 for w in ws] + [w < s for w, s in zip(ws, shape)] + [app == fz(tuple(ws))]))))
    return app


def reduction_bound_fact(app, idx):
    """definitional fact for an index tuple in range:  MAX >= elem(idx)  /  MIN <= elem(idx) /
    ANY <= elem / ALL => elem"""
    info = _RED_APPS.get(unwrap(app).sexpr())
    if info is None:
        raise core.EngineError("not a registered reduction term")
    tag, fz, shape, kind = info
    e = fz(tuple(to_int(i) for i in idx))
    rng = z3.And(*[z3.And(to_int(i) >= 0, to_int(i) < _zsize(s)) for i, s in zip(idx, shape)]) if shape else z3.BoolVal(True)
    a = unwrap(app)
    if tag == "MAX":
        return z3.Implies(rng, a >= e)
    if tag == "MIN":
        return z3.Implies(rng, a <= e)
    if tag == "ANY":
        return z3.Implies(z3.And(rng, e), a)
    return z3.Implies(z3.And(rng, a), e)


def reduction_info(app):
    return _RED_APPS.get(unwrap(app).sexpr())


def sym_max(a, axis=None, **kw):
    if not isinstance(a, SymArr):
        if _has_sym(a):
            a = as_symarr(a)
        else:
            return _np.max(a, axis=axis, **kw)
    if axis is not None:
        raise Unsupported("max along axis of symbolic array")
    if a.ndim == 0:
        return a.elem()
    return wrap(_opaque_reduction("MAX", a))


def sym_min(a, axis=None, **kw):
    if not isinstance(a, SymArr):
        if _has_sym(a):
            a = as_symarr(a)
        else:
            return _np.min(a, axis=axis, **kw)
    if axis is not None:
        raise Unsupported("min along axis of symbolic array")
    if a.ndim == 0:
        return a.elem()
    return wrap(_opaque_reduction("MIN", a))


def sym_any(a, axis=None, **kw):
    if not isinstance(a, SymArr):
        if isinstance(a, SymBool):
            return a
        return _np.any(a, axis=axis, **kw)
    if a.ndim == 0:
        return wrap(_cast_expr(a.at(), a.kind, "bool"))
    if a.kind != "bool":
        a = a.astype(bool)
    return wrap(_opaque_reduction("ANY", a))


def sym_all(a, axis=None, **kw):
    if not isinstance(a, SymArr):
        if isinstance(a, SymBool):
            return a
        return _np.all(a, axis=axis, **kw)
    if a.ndim == 0:
        return wrap(_cast_expr(a.at(), a.kind, "bool"))
    if a.kind != "bool":
        a = a.astype(bool)
    return wrap(_opaque_reduction("ALL", a))


def sym_prod(a, axis=None, **kw):
    if isinstance(a, (tuple, list)) and _has_sym(a):
        r = 1
        for x in a:
            r = r * x
        return r
    if isinstance(a, SymArr):
        raise Unsupported("prod of symbolic array")
    return _np.prod(a, axis=axis, **kw)


def sym_isnan(a):
    if isinstance(a, SymArr):
        # reals have no NaN in this value model (stated assumption)
        return SymArr.fresh(a.shape, lambda idx: z3.BoolVal(False), "bool")
    if isinstance(a, (SymReal, SymInt)):
        return False
    return _np.isnan(a)


def sym_ix_(*seqs):
    if not _has_sym(*seqs) and not any(isinstance(s, SymSeq) for s in seqs):
        return _np.ix_(*seqs)
    out = []
    nd = len(seqs)
    for k, s in enumerate(seqs):
        if isinstance(s, SymSeq):
            shape = tuple(s.n if j == k else 1 for j in range(nd))
            arr = SymArr.fresh(shape, (lambda s, k: (lambda idx: s.fn(to_int(idx[k]))))(s, k), "int")
            arr._seq = s
            arr._seq_axis = k
            out.append(arr)
            continue
        elems = list(s)
        exprs = [to_int(e) for e in elems]
        shape = tuple(len(elems) if j == k else 1 for j in range(nd))
        out.append(SymArr.fresh(shape, (lambda exprs, k: (lambda idx: _select(exprs, idx[k])))(exprs, k), "int"))
    return tuple(out)


def sym_moveaxis(a, source, destination):
    if not isinstance(a, SymArr):
        return _np.moveaxis(a, source, destination)
    nd = a.ndim
    source %= nd
    destination %= nd
    order = [j for j in range(nd) if j != source]
    order.insert(destination, source)
    return a.transpose(order)


def sym_diagonal(a, offset=0, axis1=0, axis2=1):
    if not isinstance(a, SymArr):
        return _np.diagonal(a, offset, axis1, axis2)
    if offset != 0:
        raise Unsupported("diagonal with offset")
    axis1 %= a.ndim
    axis2 %= a.ndim
    n1, n2 = a.shape[axis1], a.shape[axis2]
    if not (n1 is n2 or same_size(n1, n2)):
        raise Unsupported("diagonal of non-square symbolic array")
    rest = [j for j in range(a.ndim) if j not in (axis1, axis2)]
    fz = a.frozen()
    out_shape = tuple(a.shape[j] for j in rest) + (n1,)

    def fn(idx):
        full = [None] * a.ndim
        for j, i in zip(rest, idx[:-1]):
            full[j] = i
        full[axis1] = idx[-1]
        full[axis2] = idx[-1]
        return fz(tuple(full))

    # numpy returns a read-only view; modelled as a fresh array (never written in flodym)
    return SymArr.fresh(out_shape, fn, a.kind)


def sym_concatenate(seq, axis=0, **kw):
    if not _has_sym(*seq):
        return _np.concatenate(seq, axis=axis, **kw)
    arrs = [as_symarr(x) for x in seq]
    if kw:
        raise Unsupported(f"concatenate with options {sorted(kw)} on symbolic arrays")
    nd = arrs[0].ndim
    if nd == 0 or any(x.ndim != nd for x in arrs):
        raise ValueError("all the input array dimensions except for the concatenation axis must match exactly (ranks differ)")
    ax = axis % nd
    for x in arrs[1:]:
        for d in range(nd):
            if d != ax and not same_size(x.shape[d], arrs[0].shape[d]):
                raise ValueError("all the input array dimensions except for the concatenation axis must match exactly")
    fzs = [x.frozen() for x in arrs]
    lens = [x.shape[ax] for x in arrs]
    total = 0
    for n in lens:
        total = total + n

    def fn(idx):
        i = to_int(idx[ax])
        off = z3.IntVal(0)
        bounds = []
        for fz, n in zip(fzs, lens):
            bounds.append((off, fz))
            off = off + _zsize(n)

        def at(fz, o):
            j = list(idx)
            j[ax] = i - o
            return fz(tuple(j))

        kinds = {x.kind for x in arrs}
        cast = (lambda e: to_real(e)) if ("real" in kinds and len(kinds) > 1) else (lambda e: e)
        e = cast(at(bounds[-1][1], bounds[-1][0]))
        for (o, fz), (o2, _) in zip(reversed(bounds[:-1]), reversed(bounds[1:])):
            e = z3.If(i < o2, cast(at(fz, o)), e)
        return e

    shape = list(arrs[0].shape)
    shape[ax] = total
    return SymArr.fresh(tuple(shape), fn, "real" if any(x.kind == "real" for x in arrs) else arrs[0].kind)


ALLCLOSE_BOUND_FACTS = False  # (instantiating ALL => close(idx) on every read of the input makes the queries too heavy)


def sym_allclose(a, b, rtol=1e-05, atol=1e-08, equal_nan=False):
    """np.allclose = all(isclose(a, b)).
    thorough tier: a canonical ALL-reduction over the elementwise closeness predicate -- the same array contents give
      the same answer, different contents are decided independently (every combination of answers is explored);
      false => a witness entry that is not close.
    quick tier: flodym uses allclose only to decide whether to log a warning; one unconstrained boolean per path
      (all call sites answer alike) keeps the number of paths down -- histories in which two calls answer
      differently are explored by the thorough tier only (stated in the evidence)."""
    if not _has_sym(a, b):
        return _np.allclose(a, b, rtol=rtol, atol=atol, equal_nan=equal_nan)
    import os as _os

    if _os.environ.get("FVC_TIER") != "thorough":
        c = ctx()
        bb = getattr(c, "_allclose_bool", None)
        if bb is None:
            bb = c.fresh("allclose", "bool")
            c._allclose_bool = bb
        return wrap(bb)
    close = sym_isclose(a, b, rtol=rtol, atol=atol)
    if close.ndim == 0:
        return wrap(close.at())
    app = _opaque_reduction("ALL", close)
    if ALLCLOSE_BOUND_FACTS:
        _install_all_trigger(app, close)
    return wrap(app)


def _install_all_trigger(app, boolarr):
    """ALL(app) => body(idx) for every index tuple at which an input function of the body is read"""
    if not core.active():
        return
    c = ctx()
    done = c.__dict__.setdefault("_all_triggers", set())
    key = app.sexpr()
    if key in done:
        return
    done.add(key)
    nd = boolarr.ndim
    qs = [z3.Int(f"qa!{j}") for j in range(nd)]
    body = boolarr.at(*qs)
    fz = boolarr.frozen()
    shape = [_zsize(s) for s in boolarr.shape]
    # uninterpreted applications in the body whose arguments are exactly the bound variables (in some order)
    stack, seen, pats = [body], set(), []
    while stack:
        t = stack.pop()
        if t.get_id() in seen:
            continue
        seen.add(t.get_id())
        if z3.is_app(t) and t.decl().kind() == z3.Z3_OP_UNINTERPRETED and t.num_args() == nd and nd > 0:
            pos = []
            for arg in t.children():
                m = [j for j, q in enumerate(qs) if z3.eq(arg, q)]
                pos.append(m[0] if m else None)
            if None not in pos and sorted(pos) == list(range(nd)):
                pats.append((t.decl().name(), pos))
        stack.extend(t.children())
    # only bodies that read one input function directly (array = an input, not a combination of several): the
    # facts for composite bodies multiply with every read of every function involved
    apps = set()
    stack2, seen2 = [body], set()
    while stack2:
        t = stack2.pop()
        if t.get_id() in seen2:
            continue
        seen2.add(t.get_id())
        if z3.is_app(t) and t.decl().kind() == z3.Z3_OP_UNINTERPRETED and t.num_args() > 0:
            apps.add(t.decl().name())
        stack2.extend(t.children())
    if len(apps) != 1 or len(pats) != 1:
        return
    for fname, pos in pats:
        def trig(*args, pos=pos):
            idx = [None] * nd
            for k, j in enumerate(pos):
                idx[j] = args[k]
            rng = z3.And(*[z3.And(i >= 0, i < s) for i, s in zip(idx, shape)])
            return z3.Implies(z3.And(rng, app), fz(tuple(idx)))

        c.add_trigger(fname, trig)


def sym_isclose(a, b, rtol=1e-05, atol=1e-08, equal_nan=False):
    """elementwise |a - b| <= atol + rtol * |b|   (numpy's definition; reals, so no NaN / inf cases)"""
    if not _has_sym(a, b):
        return _np.isclose(a, b, rtol=rtol, atol=atol, equal_nan=equal_nan)
    if _has_sym(rtol, atol):
        raise Unsupported("isclose with symbolic tolerances")
    rt, at = z3.RealVal(repr(float(rtol))), z3.RealVal(repr(float(atol)))

    def op(x, y):
        x, y = to_real(x), to_real(y)
        d = x - y
        return z3.If(d >= 0, d, -d) <= at + rt * z3.If(y >= 0, y, -y)

    return _elementwise2(as_symarr(a), as_symarr(b), op, "bool")


def sym_array_equal(a1, a2, equal_nan=False):
    """np.array_equal: same shape and all entries equal (exact ALL-reduction; same view of the same buffer: True)"""
    if not _has_sym(a1, a2):
        return _np.array_equal(a1, a2, equal_nan=equal_nan)
    if a1 is None or a2 is None or isinstance(a1, str) or isinstance(a2, str):
        return False  # (numpy compares a 0-d object array holding None / text with numbers: never equal)
    a, b = as_symarr(a1), as_symarr(a2)
    if a.ndim != b.ndim:
        return False
    for sa, sb in zip(a.shape, b.shape):
        if not same_size(sa, sb):
            return False
    if a._buf is b._buf and a._vaxes == b._vaxes and a._fixed == b._fixed:
        return True
    eq = _elementwise2(a, b, lambda x, y: x == y, "bool")
    if not isinstance(eq, SymArr):
        return eq
    app = _opaque_reduction("ALL", eq)
    _install_all_trigger(app, eq)
    return wrap(app)


def sym_transpose(a, axes=None):
    if not _has_sym(a):
        return _np.transpose(a, axes)
    a = as_symarr(a)
    if axes is None:
        return a.transpose()
    return a.transpose(tuple(axes))


def sym_swapaxes(a, axis1, axis2):
    if not _has_sym(a):
        return _np.swapaxes(a, axis1, axis2)
    a = as_symarr(a)
    order = list(range(a.ndim))
    order[axis1 % a.ndim], order[axis2 % a.ndim] = order[axis2 % a.ndim], order[axis1 % a.ndim]
    return a.transpose(order)


def sym_expand_dims(a, axis):
    if not _has_sym(a):
        return _np.expand_dims(a, axis)
    a = as_symarr(a)
    axes = sorted([(ax % (a.ndim + 1)) for ax in ((axis,) if isinstance(axis, int) else tuple(axis))])
    key = [slice(None)] * a.ndim
    for ax in axes:
        key.insert(ax, None)
    return a[tuple(key)]


def sym_squeeze(a, axis=None):
    if not _has_sym(a):
        return _np.squeeze(a, axis)
    a = as_symarr(a)
    if axis is None:
        drop = [j for j, n in enumerate(a.shape) if isinstance(n, int) and n == 1]
        if any(isinstance(n, SymInt) for n in a.shape):
            raise Unsupported("squeeze() without axis on symbolic extents")
    else:
        drop = [(ax % a.ndim) for ax in ((axis,) if isinstance(axis, int) else tuple(axis))]
        for j in drop:
            if not is_one(a.shape[j]):
                raise ValueError("cannot select an axis to squeeze out which has size not equal to one")
    return a[tuple(0 if j in drop else slice(None) for j in range(a.ndim))] if a.ndim else a


def sym_broadcast_to(a, shape, **kw):
    if not _has_sym(a, shape):
        return _np.broadcast_to(a, shape, **kw)
    a = as_symarr(a)
    shape = _shape_tuple(shape)
    out = broadcast_shapes(a.shape, shape)
    if len(out) != len(shape) or not all((x is y) or same_size(x, y) for x, y in zip(out, shape)):
        raise ValueError("operands could not be broadcast together with remapped shapes")
    rd = _bcast_reader(a, shape)
    # numpy returns a read-only view; modelled as a fresh array (flodym never writes through it)
    return SymArr.fresh(shape, rd, a.kind)


def sym_where(cond, x=None, y=None):
    if x is None or y is None:
        if _has_sym(cond):
            raise Unsupported("np.where(condition) with one argument on symbolic data")
        return _np.where(cond)
    if not _has_sym(cond, x, y):
        return _np.where(cond, x, y)
    c, xa, ya = as_symarr(cond), as_symarr(x), as_symarr(y)
    shape = broadcast_shapes(c.shape, xa.shape, ya.shape)
    rc, rx, ry = _bcast_reader(c, shape), _bcast_reader(xa, shape), _bcast_reader(ya, shape)
    k = _join_kind(xa.kind, ya.kind)
    ck, xk, yk = c.kind, xa.kind, ya.kind
    return SymArr.fresh(shape, lambda idx: z3.If(_cast_expr(rc(idx), ck, "bool"), _cast_expr(rx(idx), xk, k), _cast_expr(ry(idx), yk, k)), k)


def sym_stack(arrays, axis=0, **kw):
    arrays = list(arrays)
    if not _has_sym(*arrays):
        return _np.stack(arrays, axis=axis, **kw)
    arrs = [as_symarr(x) for x in arrays]
    nd = arrs[0].ndim
    for x in arrs[1:]:
        if x.ndim != nd or not all((p is q) or same_size(p, q) for p, q in zip(x.shape, arrs[0].shape)):
            raise ValueError("all input arrays must have the same shape")
    axis = axis % (nd + 1)
    fzs = [x.frozen() for x in arrs]
    kinds = [x.kind for x in arrs]
    k = "real" if "real" in kinds else kinds[0]
    shape = arrs[0].shape[:axis] + (len(arrs),) + arrs[0].shape[axis:]

    def fn(idx):
        sel = idx[axis]
        rest = tuple(idx[:axis]) + tuple(idx[axis + 1 :])
        vals = [_cast_expr(fz(rest), kk, k) for fz, kk in zip(fzs, kinds)]
        return _select(vals, sel)

    return SymArr.fresh(shape, fn, k)


class _CutNdindex:
    """`for i in np.ndindex(shape)` with symbolic extents: a loop whose iterations are independent.
    Rule (the pending loop contract supplies the pieces):
        havoc the written buffer; pick a generic index tuple i in range; run the real body once;
        the contract proves  P(i)  about the region R(i) it wrote, that nothing outside R(i) changed, and that the
        body did not read the written buffer; afterwards the buffer is havoced again and  forall i. P(i)  is assumed.
    Sound because iteration i then neither depends on nor disturbs any other iteration."""

    def __init__(self, shape, lc, frame):
        self.shape, self.lc, self.frame = shape, lc, frame
        self.state = 0

    def __iter__(self):
        return self

    def __next__(self):
        c = ctx()
        L = self.frame.f_locals
        if self.state == 0:
            idx = []
            for j, n in enumerate(self.shape):
                if isinstance(n, int):
                    raise Unsupported("ndindex loop contract with a concrete extent (mixed shapes are enumerated instead)")
                v = wrap(c.fresh(f"nd{j}", "int"))
                c.assume(z3.And(to_int(v) >= 0, to_int(v) < to_int(n)))
                idx.append(v)
            self.idx = tuple(idx)
            self.lc.havoc(L)
            self.lc.before_body(L, self.idx)
            self.state = 1
            return self.idx
        if self.state == 1:
            self.lc.after_body(L, self.idx)
            self.lc.havoc(L)
            self.lc.assume_all(L)
            self.state = 2
        raise StopIteration


def sym_ndindex(*shape, _depth=1):
    import sys

    if len(shape) == 1 and isinstance(shape[0], (tuple, list)):
        shape = tuple(shape[0])
    if not any(isinstance(n, SymInt) for n in shape):
        return _np.ndindex(*shape)
    c = ctx()
    if not c.loop_contracts:
        raise Unsupported("np.ndindex over symbolic extents: loop needs a contract (none pending)")
    lc = c.loop_contracts.pop(0)
    return _CutNdindex(tuple(shape), lc, sys._getframe(_depth))


def sym_arange(*args, **kw):
    if not _has_sym(*args):
        return _np.arange(*args, **kw)
    if len(args) == 1 and isinstance(args[0], SymInt) and not kw:
        ident = lambda j: j
        return SymSeq(args[0], ident, inv=ident, name="diag")  # 0, 1, ..., n-1 (what diag_indices repeats per axis)
    raise Unsupported("np.arange with symbolic start / step")


def sym_diag_indices(n, ndim=2):
    if not isinstance(n, SymInt):
        return _np.diag_indices(n, ndim)
    ident = lambda j: j
    s = SymSeq(n, ident, inv=ident, name="diag")
    return (s,) * ndim


# ----------------------------------------------------------------------------------------
# enumerations of index tuples (flatten / MultiIndex.from_product, nonzero / argwhere)

_enum_ids = itertools.count()


def _extent_key(extents):
    return tuple(str(z3.simplify(_zsize(n))) for n in extents)


class COrder:
    """C-order enumeration of the index tuples of a box with the given extents: a bijection between the row
    numbers 0..N-1 and the index tuples (dec: row -> tuple, enc: tuple -> row), increasing in lexicographic order.
    Two enumerations over the same extents are the same enumeration (one COrder object per extents list and path).
    Primitive contract of numpy's flatten() and of pandas' MultiIndex.from_product."""

    def __init__(self, extents):
        c = ctx()
        k = next(_enum_ids)
        self.extents = tuple(extents)
        nd = len(self.extents)
        self.nd = nd
        ez = [_zsize(n) for n in self.extents]
        sym = [n for n in self.extents if isinstance(n, SymInt)]
        if not sym:
            tot = 1
            for n in self.extents:
                tot *= int(n)
            self.N = tot
        else:
            self.N = SymInt(c.fresh(f"n_flat{k}", "int"))
            conc = 1
            for n in self.extents:
                if not isinstance(n, SymInt):
                    conc *= int(n)
            facts = [self.N.e >= 0]
            if len(sym) == 1:
                facts.append(self.N.e == conc * sym[0].e)
            else:
                facts.append(z3.Implies(z3.And(*[e >= 1 for e in ez]), self.N.e >= 1))
                facts.append(z3.Implies(z3.Or(*[e == 0 for e in ez]), self.N.e == 0))
                for e in ez:
                    facts.append(z3.Implies(z3.And(*[o >= 1 for o in ez]), self.N.e >= e))
            c.assume(z3.And(*facts), why="number of index tuples of a box")
        zN = _zsize(self.N)
        self.dec = [z3.Function(f"dec{k}_{d}", z3.IntSort(), z3.IntSort()) for d in range(nd)]
        self.enc = z3.Function(f"enc{k}", *([z3.IntSort()] * nd), z3.IntSort()) if nd else None
        dec, enc = self.dec, self.enc
        if nd:
            def dec_fact(r):
                inr = z3.And(r >= 0, r < zN)
                body = [z3.And(dec[d](r) >= 0, dec[d](r) < ez[d]) for d in range(nd)]
                body.append(enc(*[dec[d](r) for d in range(nd)]) == r)
                if nd == 1:
                    body.append(dec[0](r) == r)
                return z3.Implies(inr, z3.And(*body))

            def enc_fact(*i):
                inb = z3.And(*[z3.And(i[d] >= 0, i[d] < ez[d]) for d in range(nd)])
                body = [enc(*i) >= 0, enc(*i) < zN] + [dec[d](enc(*i)) == i[d] for d in range(nd)]
                if nd == 1:
                    body.append(enc(*i) == i[0])
                if not sym:
                    # concrete extents: the row number is the usual linear combination
                    stride, lin = 1, 0
                    for d in range(nd - 1, -1, -1):
                        lin = lin + i[d] * stride
                        stride *= int(self.extents[d])
                    body.append(enc(*i) == lin)
                return z3.Implies(inb, z3.And(*body))

            for d in range(nd):
                c.add_trigger(f"dec{k}_{d}", dec_fact)
            c.add_trigger(f"enc{k}", enc_fact)

    def dec_expr(self, d, r):
        return self.dec[d](to_int(r))

    def enc_expr(self, idx):
        if not self.nd:
            return z3.IntVal(0)
        return self.enc(*[to_int(i) for i in idx])

    def order_fact(self, r1, r2):
        """r1 < r2  <=>  dec(r1) <lex dec(r2)   (both rows in range)"""
        r1, r2 = to_int(r1), to_int(r2)
        lex = z3.BoolVal(False)
        for d in range(self.nd - 1, -1, -1):
            a, b = self.dec[d](r1), self.dec[d](r2)
            lex = z3.Or(a < b, z3.And(a == b, lex))
        return (r1 < r2) == lex


def corder_of(extents):
    c = ctx()
    reg = c.__dict__.setdefault("_corders", {})
    key = _extent_key(extents)
    if key not in reg:
        reg[key] = COrder(extents)
    return reg[key]


class SelOrder:
    """C-order enumeration of the index tuples of a box that satisfy a predicate (np.nonzero / np.argwhere):
    rows 0..M-1, sel: row -> tuple, inv: tuple -> row;  every selected tuple occurs exactly once"""

    def __init__(self, extents, pred):
        c = ctx()
        k = next(_enum_ids)
        self.extents = tuple(extents)
        nd = len(self.extents)
        if nd == 0:
            raise Unsupported("nonzero / argwhere of a 0-d array")
        self.nd = nd
        ez = [_zsize(n) for n in self.extents]
        self.M = SymInt(c.fresh(f"n_sel{k}", "int"))
        c.assume(self.M.e >= 0, why="number of selected entries")
        zM = self.M.e
        self.sel = [z3.Function(f"sel{k}_{d}", z3.IntSort(), z3.IntSort()) for d in range(nd)]
        self.inv = z3.Function(f"selinv{k}", *([z3.IntSort()] * nd), z3.IntSort())
        sel, inv = self.sel, self.inv
        self.pred = pred

        def sel_fact(r):
            t = [sel[d](r) for d in range(nd)]
            body = [z3.And(t[d] >= 0, t[d] < ez[d]) for d in range(nd)] + [pred(tuple(t)), inv(*t) == r]
            return z3.Implies(z3.And(r >= 0, r < zM), z3.And(*body))

        def inv_fact(*i):
            inb = z3.And(*[z3.And(i[d] >= 0, i[d] < ez[d]) for d in range(nd)])
            body = [inv(*i) >= 0, inv(*i) < zM] + [sel[d](inv(*i)) == i[d] for d in range(nd)]
            return z3.Implies(z3.And(inb, pred(tuple(i))), z3.And(*body))

        for d in range(nd):
            c.add_trigger(f"sel{k}_{d}", sel_fact)
        c.add_trigger(f"selinv{k}", inv_fact)
        c.__dict__.setdefault("_selorders", []).append(self)

    def sel_expr(self, d, r):
        return self.sel[d](to_int(r))

    def row_of(self, idx):
        return self.inv(*[to_int(i) for i in idx])

    def order_fact(self, r1, r2):
        r1, r2 = to_int(r1), to_int(r2)
        lex = z3.BoolVal(False)
        for d in range(self.nd - 1, -1, -1):
            a, b = self.sel[d](r1), self.sel[d](r2)
            lex = z3.Or(a < b, z3.And(a == b, lex))
        return (r1 < r2) == lex


def _selection_of(a):
    a = as_symarr(a)
    fz = a.frozen()
    kind = a.kind
    if kind == "bool":
        pred = lambda idx: fz(idx)
    else:
        pred = lambda idx: fz(idx) != 0
    return SelOrder(a.shape, pred)


def sym_nonzero(a):
    if not isinstance(a, SymArr):
        return _np.nonzero(a)
    so = _selection_of(a)
    return tuple(SymArr.fresh((so.M,), (lambda d: lambda idx: so.sel_expr(d, idx[0]))(d), "int", origin="nonzero") for d in range(so.nd))


def sym_argwhere(a):
    if not isinstance(a, SymArr):
        return _np.argwhere(a)
    so = _selection_of(a)
    return SymArr.fresh((so.M, so.nd), lambda idx: _select([so.sel_expr(d, idx[0]) for d in range(so.nd)], idx[1]), "int", origin="argwhere")


_FUNC_IMPL = {
    _np.nonzero: sym_nonzero,
    _np.argwhere: sym_argwhere,
    _np.einsum: sym_einsum,
    _np.tile: sym_tile,
    _np.sum: sym_sum,
    _np.cumsum: sym_cumsum,
    _np.diff: sym_diff,
    _np.max: sym_max,
    _np.amax: sym_max,
    _np.min: sym_min,
    _np.amin: sym_min,
    _np.any: sym_any,
    _np.all: sym_all,
    _np.prod: sym_prod,
    _np.moveaxis: sym_moveaxis,
    _np.diagonal: sym_diagonal,
    _np.concatenate: sym_concatenate,
    _np.allclose: sym_allclose,
    _np.isclose: sym_isclose,
    _np.array_equal: sym_array_equal,
    _np.take: sym_take,
    _np.may_share_memory: sym_shares_memory,
    _np.shares_memory: sym_shares_memory,
    _np.delete: sym_delete,
    _np.shape: lambda a: tuple(a.shape),
    _np.ndim: lambda a: a.ndim,
    _np.zeros_like: sym_zeros_like,
    _np.ones_like: sym_ones_like,
    _np.empty_like: sym_empty_like,
    _np.full_like: sym_full_like,
    _np.copy: lambda a, **kw: a.copy(),
    _np.transpose: sym_transpose,
    _np.swapaxes: sym_swapaxes,
    _np.expand_dims: sym_expand_dims,
    _np.squeeze: sym_squeeze,
    _np.broadcast_to: sym_broadcast_to,
    _np.where: sym_where,
    _np.stack: sym_stack,
}

def sym_invert(a):
    """~a / np.logical_not(a) of a boolean array: elementwise negation (integers: outside the model)"""
    a = as_symarr(a)
    if a.kind != "bool":
        raise Unsupported("bitwise invert of a non-boolean symbolic array")
    return _elementwise1(a, lambda x: z3.Not(x), "bool")


def sym_logical_not(a):
    a = as_symarr(a)
    if a.kind == "bool":
        return sym_invert(a)
    return _elementwise1(a, lambda x: x == 0, "bool")


_UFUNC_IMPL = {
    _np.invert: sym_invert,
    _np.logical_not: sym_logical_not,
    _np.add: lambda a, b: _elementwise2(a, b, lambda x, y: x + y),
    _np.subtract: lambda a, b: _elementwise2(a, b, lambda x, y: x - y),
    _np.multiply: lambda a, b: _elementwise2(a, b, lambda x, y: x * y),
    _np.true_divide: lambda a, b: _elementwise2(a, b, lambda x, y: to_real(x) / to_real(y), "real"),
    _np.negative: lambda a: -as_symarr(a),
    _np.heaviside: lambda a, h0: _elementwise2(a, h0, lambda x, h: z3.If(to_real(x) < 0, z3.RealVal(0), z3.If(to_real(x) == 0, to_real(h), z3.RealVal(1))), "real"),
    _np.reciprocal: lambda a: _elementwise1(a, lambda x: 1 / to_real(x), "real"),  # (real-valued model: integer dtypes are exercised by the concrete 'integer' runs)
    _np.absolute: sym_abs,
    _np.sign: sym_sign,
    _np.minimum: sym_minimum,
    _np.maximum: sym_maximum,
    _np.isnan: sym_isnan,
    _np.log: sym_log,
    _np.sqrt: sym_sqrt,
    _np.exp: sym_exp,
    _np.less: lambda a, b: _elementwise2(a, b, lambda x, y: x < y, "bool"),
    _np.less_equal: lambda a, b: _elementwise2(a, b, lambda x, y: x <= y, "bool"),
    _np.greater: lambda a, b: _elementwise2(a, b, lambda x, y: x > y, "bool"),
    _np.greater_equal: lambda a, b: _elementwise2(a, b, lambda x, y: x >= y, "bool"),
    _np.power: lambda a, b: _elementwise2(a, b, lambda x, y: core.POW(to_real(x), to_real(y)), "real"),
}


class _UfuncShim:
    """a numpy ufunc as seen by flodym modules: called on symbolic operands it applies the model; reduce / accumulate
    are the matching reductions of the model (np.add.reduce = sum, np.add.accumulate = cumsum); everything else, and
    every call on plain values, is the real ufunc"""

    def __init__(self, real, impl, reduce=None, accumulate=None):
        self._real, self._impl, self._reduce, self._accumulate = real, impl, reduce, accumulate

    def __call__(self, *args, **kw):
        if not _has_sym(*args):
            return self._real(*args, **kw)
        out = kw.pop("out", None)
        if kw:
            raise Unsupported(f"ufunc {self._real.__name__} with options {sorted(kw)} on symbolic operands")
        r = self._impl(*args)
        if out is not None:
            if isinstance(out, tuple):
                out = out[0]
            if not isinstance(out, SymArr):
                raise Unsupported("ufunc out= that is not a symbolic array")
            out[...] = r
            return out
        return r

    def reduce(self, a, axis=0, **kw):
        if not _has_sym(a):
            return self._real.reduce(a, axis=axis, **kw)
        if self._reduce is None or kw:
            raise Unsupported(f"ufunc {self._real.__name__}.reduce on symbolic array")
        return self._reduce(a, axis=axis)

    def accumulate(self, a, axis=0, **kw):
        if not _has_sym(a):
            return self._real.accumulate(a, axis=axis, **kw)
        if self._accumulate is None or kw:
            raise Unsupported(f"ufunc {self._real.__name__}.accumulate on symbolic array")
        return self._accumulate(a, axis=axis)

    def __getattr__(self, name):
        return getattr(self._real, name)


class NPShim:
    """stands in for the name `np` inside flodym modules during symbolic runs"""

    ndarray = ndarray_shim
    newaxis = None
    zeros = staticmethod(sym_zeros)
    ones = staticmethod(sym_ones)
    full = staticmethod(sym_full)
    full_like = staticmethod(sym_full_like)
    zeros_like = staticmethod(sym_zeros_like)
    ones_like = staticmethod(sym_ones_like)
    shape = staticmethod(lambda a: tuple(a.shape) if isinstance(a, SymArr) else _np.shape(a))
    ndim = staticmethod(lambda a: a.ndim if isinstance(a, SymArr) else _np.ndim(a))
    empty = staticmethod(sym_empty)
    take = staticmethod(sym_take)
    may_share_memory = staticmethod(sym_shares_memory)
    shares_memory = staticmethod(sym_shares_memory)
    delete = staticmethod(sym_delete)
    arange = staticmethod(sym_arange)
    empty_like = staticmethod(sym_empty_like)
    array = staticmethod(sym_array)
    asarray = staticmethod(sym_asarray)
    einsum = staticmethod(sym_einsum)
    tile = staticmethod(sym_tile)
    sum = staticmethod(sym_sum)
    cumsum = staticmethod(sym_cumsum)
    diff = staticmethod(sym_diff)
    abs = staticmethod(sym_abs)
    absolute = staticmethod(sym_abs)
    sign = staticmethod(sym_sign)
    minimum = staticmethod(sym_minimum)
    maximum = staticmethod(sym_maximum)
    max = staticmethod(sym_max)
    min = staticmethod(sym_min)
    any = staticmethod(sym_any)
    all = staticmethod(sym_all)
    prod = staticmethod(sym_prod)
    isnan = staticmethod(sym_isnan)
    ix_ = staticmethod(sym_ix_)
    moveaxis = staticmethod(sym_moveaxis)
    diagonal = staticmethod(sym_diagonal)
    concatenate = staticmethod(sym_concatenate)
    allclose = staticmethod(sym_allclose)
    isclose = staticmethod(sym_isclose)
    array_equal = staticmethod(sym_array_equal)
    diag_indices = staticmethod(sym_diag_indices)
    ndindex = staticmethod(sym_ndindex)
    transpose = staticmethod(sym_transpose)
    swapaxes = staticmethod(sym_swapaxes)
    expand_dims = staticmethod(sym_expand_dims)
    squeeze = staticmethod(sym_squeeze)
    broadcast_to = staticmethod(sym_broadcast_to)
    where = staticmethod(sym_where)
    stack = staticmethod(sym_stack)
    nonzero = staticmethod(sym_nonzero)
    argwhere = staticmethod(sym_argwhere)
    add = _UfuncShim(_np.add, lambda a, b: _elementwise2(a, b, lambda x, y: x + y), reduce=lambda a, axis=0, **kw: sym_sum(a, axis=axis, **kw), accumulate=lambda a, axis=0, **kw: sym_cumsum(a, axis=axis, **kw))
    subtract = _UfuncShim(_np.subtract, lambda a, b: _elementwise2(a, b, lambda x, y: x - y))
    multiply = _UfuncShim(_np.multiply, lambda a, b: _elementwise2(a, b, lambda x, y: x * y), reduce=lambda a, axis=0, **kw: sym_prod(a, axis=axis, **kw))
    divide = _UfuncShim(_np.divide, lambda a, b: _elementwise2(a, b, lambda x, y: to_real(x) / to_real(y), "real"))
    true_divide = divide
    negative = _UfuncShim(_np.negative, lambda a: -as_symarr(a))
    less = _UfuncShim(_np.less, lambda a, b: _elementwise2(a, b, lambda x, y: x < y, "bool"))
    less_equal = _UfuncShim(_np.less_equal, lambda a, b: _elementwise2(a, b, lambda x, y: x <= y, "bool"))
    greater = _UfuncShim(_np.greater, lambda a, b: _elementwise2(a, b, lambda x, y: x > y, "bool"))
    greater_equal = _UfuncShim(_np.greater_equal, lambda a, b: _elementwise2(a, b, lambda x, y: x >= y, "bool"))
    log = staticmethod(sym_log)
    sqrt = staticmethod(sym_sqrt)
    exp = staticmethod(sym_exp)

    def __getattr__(self, name):
        return getattr(_np, name)


NP = NPShim()


# ----------------------------------------------------------------------------------------
# builtins shims (injected into module globals, shadowing the builtins for flodym code only)


def sh_len(x):
    f = getattr(x, "__symlen__", None)
    if f is not None:
        return f()
    return builtins.len(x)


class _IntMeta(type):
    def __instancecheck__(cls, inst):
        return isinstance(inst, (builtins.int, SymInt))

    def __subclasscheck__(cls, sub):
        return issubclass(sub, builtins.int)


class sh_int(metaclass=_IntMeta):
    """`int` as seen by flodym modules: isinstance works as usual; int(SymInt) stays symbolic"""

    def __new__(cls, x=0, *a):
        if isinstance(x, SymInt):
            return x
        if isinstance(x, SymReal):
            raise Unsupported("int() of symbolic real")
        return builtins.int(x, *a)


def sh_abs(x):
    if isinstance(x, SymArr):
        return sym_abs(x)
    return builtins.abs(x)


def sh_max(*args, **kw):
    if len(args) == 1:
        seq = list(args[0])
    else:
        seq = list(args)
    if not _has_sym(seq):
        return builtins.max(*args, **kw)
    if set(kw) - {"default"}:
        raise Unsupported("max with key on symbolic values")
    if not seq:
        if "default" in kw:
            return kw["default"]
        raise ValueError("max() iterable argument is empty")
    r = seq[0]
    for x in seq[1:]:
        r = core.site(x > r, x, r)  # python: keeps first maximal element
    return r


def sh_min(*args, **kw):
    if len(args) == 1:
        seq = list(args[0])
    else:
        seq = list(args)
    if not _has_sym(seq):
        return builtins.min(*args, **kw)
    if kw:
        raise Unsupported("min with key/default on symbolic values")
    if not seq:
        raise ValueError("min() iterable argument is empty")
    r = seq[0]
    for x in seq[1:]:
        r = core.site(x < r, x, r)
    return r


def sh_range(*args):
    if any(isinstance(a, SymInt) for a in args):
        if len(args) == 1:
            return SymRange(0, args[0])
        if len(args) == 2:
            return SymRange(args[0], args[1])
        raise Unsupported("range with step over symbolic bounds")
    return builtins.range(*args)


class _ListMeta(type):
    def __instancecheck__(cls, inst):
        return isinstance(inst, builtins.list)

    def __subclasscheck__(cls, sub):
        return issubclass(sub, builtins.list)


class sh_list(metaclass=_ListMeta):
    def __new__(cls, it=()):
        if isinstance(it, SymRange):
            if not (isinstance(it.lo, int) and it.lo == 0):
                raise Unsupported("list(range(lo, hi)) with symbolic bounds")
            ident = lambda j: to_int(j)
            return SymSeq(it.n, ident, inv=ident, name="range")
        if isinstance(it, SymSeq):
            return it
        return builtins.list(it)


class SymItemSet:
    """set(<symbolic item list>): only subset / superset tests are supported"""

    def __init__(self, items):
        self.items = items

    def issubset(self, other):
        return self.items.subset_of(other)

    def issuperset(self, other):
        return other.subset_of(self.items)


class _SetMeta(type):
    def __instancecheck__(cls, inst):
        return isinstance(inst, builtins.set)


class sh_set(metaclass=_SetMeta):
    def __new__(cls, it=()):
        from . import symtable

        if hasattr(it, "subset_of"):
            return SymItemSet(it)
        if isinstance(it, symtable.ColValues):
            return symtable.ColSet(it.col)
        if isinstance(it, symtable.Opaque):
            return it
        return builtins.set(it)


def fvc_listcomp(f, it):
    """[f(x) for x in it]  -- the comprehension helper that rewritten functions call.
    For a symbolic-length sequence the body is evaluated once at a generic position J:
      * a path on which f raises is the path 'some element raises' (J is the witness),
      * a path on which f returns is the path 'every element returns': the decisions taken for J
        become facts for every position (instantiated by trigger), and the result is the sequence
        j -> value(j)."""
    if not (hasattr(it, "__symlen__") and isinstance(it.__symlen__(), SymInt)):
        return [f(x) for x in it]
    c = ctx()
    n = it.__symlen__()
    J = c.fresh("J", "int")
    c.assume(z3.And(J >= 0, J < n.e))
    k0, a0 = len(c.pc_log), len(c.assume_log)
    r = f(it[wrap(J)])
    phi = list(c.pc_log[k0:]) + list(c.assume_log[a0:])
    if not isinstance(r, (int, SymInt)) or isinstance(r, bool):
        raise Unsupported("comprehension over symbolic sequence with non-integer elements")
    expr = to_int(r)

    def body_of(j):
        return z3.substitute(expr, (J, j))

    def facts_of(j):
        return [z3.substitute(p, (J, j)) for p in phi]

    also = []
    if hasattr(it, "_pos") and hasattr(it, "name"):
        also.append((f"pos_{it.name}", (lambda pos: (lambda x: pos(x)))(it._pos)))
    return SymSeq.define(n, body_of, facts_of, also_at=also)


class SymZipItemsPositions:
    """zip(items, range(len(items))): the pairs (item j, j)"""

    def __init__(self, items):
        self.items = items


def sh_zip(*its, **kw):
    if len(its) == 2 and hasattr(its[0], "contains_expr") and isinstance(getattr(its[0], "n", None), SymInt):
        a, b = its
        if isinstance(b, SymRange) and isinstance(b.lo, int) and b.lo == 0 and same_size(b.hi, a.n):
            return SymZipItemsPositions(a)
        raise Unsupported("zip of a symbolic item list with something other than range(len(items))")
    if any(hasattr(x, "contains_expr") and isinstance(getattr(x, "n", None), SymInt) for x in its):
        raise Unsupported("zip over a symbolic item list")
    return builtins.zip(*its, **kw)


class _DictMeta(type):
    def __instancecheck__(cls, inst):
        return isinstance(inst, builtins.dict)

    def __subclasscheck__(cls, sub):
        return issubclass(sub, builtins.dict)


class sh_dict(metaclass=_DictMeta):
    """`dict` as seen by flodym modules: dict(zip(items, range(len(items)))) is the item -> position mapping"""

    fromkeys = builtins.dict.fromkeys

    def __new__(cls, *a, **k):
        if len(a) == 1 and isinstance(a[0], SymZipItemsPositions):
            from . import symtable

            return symtable.ItemPosMap(a[0].items, lambda j: to_int(j))
        return builtins.dict(*a, **k)


def _sh_enumerate(it, start=0):
    from . import symtable

    return symtable.sh_enumerate(it, start)


def _sh_any(x):
    from . import symtable

    return symtable.sh_any(x)


def _fvc_dictcomp(f, it, nargs=1):
    from . import symtable

    return symtable.fvc_dictcomp(f, it, nargs)


BUILTIN_SHIMS = {"enumerate": _sh_enumerate, "any": _sh_any, "__fvc_dictcomp__": _fvc_dictcomp, "len": sh_len, "int": sh_int, "abs": sh_abs, "max": sh_max, "min": sh_min, "range": sh_range, "list": sh_list, "set": sh_set, "__fvc_listcomp__": fvc_listcomp, "zip": sh_zip, "dict": sh_dict}
