"""Abstract DataFrame for the *placement half* of flodym's importer (`_check_data_complete`).

A SymTable is a finite sequence of N rows (N symbolic) over named columns; a column maps a row number to an
item id (dimension columns), a position (after `.map`), or a real value with a separate NaN flag (value column).
Only the ~15 pandas operations `_check_data_complete` uses are modelled; each is stated over rows:
    df[list of names]        column selection (same rows)
    df[name]                 a column
    df[bool column]          the rows satisfying the predicate, in order (embedding + choice inverse)
    df[name] = column        column replacement
    .duplicated().any()      exists i != j with equal rows   (witness / distinctness facts)
    .unique()  -> set(..) - set(dim.items)  -> truthiness: exists a row whose item is not in the dimension
    .isin(items) .map(item->position map) .fillna(0) .isna() .astype() .values  len()
These definitions are assumed contracts of pandas (trusted; the bounded units of contracts/tables.py run the
same importer on real pandas).
"""
from __future__ import annotations

import itertools
import z3

from . import core, symnp
from .core import SymInt, SymBool, ctx, wrap, to_int, to_real

_ids = itertools.count()


class Opaque:
    """something only used to build an error message"""

    def __init__(self, what="opaque"):
        self.what = what

    def __repr__(self):
        return f"<{self.what}>"

    def __sub__(self, o):
        return Opaque(self.what + " minus ...")

    def __iter__(self):
        return iter(())

    def itertuples(self, *a, **k):
        return Opaque("index tuples")


def _row_symbols(fn):
    """names of the uninterpreted function symbols that `fn(i)` applies directly to the row number i"""
    probe = z3.Int("row!probe")
    e = fn(probe)
    out = []
    seen = set()
    stack = [e] if z3.is_expr(e) else []
    while stack:
        t = stack.pop()
        if t.get_id() in seen:
            continue
        seen.add(t.get_id())
        if z3.is_app(t) and t.decl().kind() == z3.Z3_OP_UNINTERPRETED and t.num_args() >= 1 and any(z3.eq(a, probe) for a in t.children()):
            out.append((t.decl().name(), [k for k, a in enumerate(t.children()) if z3.eq(a, probe)][0]))
        stack.extend(t.children())
    return out


def forall_rows(fact_of_row, mentions):
    """install  'for all rows i: fact_of_row(i)'  as triggers on the symbols through which `mentions(i)` reads row i"""
    c = ctx()
    for name, argpos in _row_symbols(mentions):
        c.add_trigger(name, (lambda argpos: lambda *args: fact_of_row(args[argpos]))(argpos))


def forall_row_pairs(fact_of_pair, mentions):
    c = ctx()
    seen = []

    def mk(argpos):
        def trig(*args):
            t = args[argpos]
            facts = [fact_of_pair(t, u) for u in seen]
            seen.append(t)
            return z3.And(*facts) if facts else None

        return trig

    for name, argpos in _row_symbols(mentions):
        c.add_trigger(name, mk(argpos))


class Rows:
    """identity of a row set: length n, optional parent embedding"""

    def __init__(self, n, parent=None, emb=None, emb_inv=None, name=None):
        self.n = n
        self.parent = parent
        self.emb = emb
        self.emb_inv = emb_inv
        self.name = name or f"rows{next(_ids)}"

    def zn(self):
        return to_int(self.n)

    def in_range(self, i):
        return z3.And(to_int(i) >= 0, to_int(i) < self.zn())


class Col:
    def __getattr__(self, name):
        # (only reached for attributes this row model does not have)
        if name.startswith("__"):
            raise AttributeError(name)
        raise core.Unsupported(f"pandas operation '{name}' is outside the row-level table model")

    def __init__(self, rows: Rows, kind, fn, isna=None, name="col"):
        self.rows = rows
        self.kind = kind  # 'item' | 'int' | 'real'
        self.fn = fn
        self.isna_fn = isna or (lambda i: z3.BoolVal(False))
        self.name = name

    def at(self, i):
        return self.fn(to_int(i))

    def unique(self):
        return ColValues(self)

    def isin(self, items):
        if not hasattr(items, "contains_expr"):
            raise core.Unsupported("isin() with a non-symbolic item list")
        return BoolCol(self.rows, lambda i: items.contains_expr(self.fn(i)))

    def map(self, m):
        if not isinstance(m, ItemPosMap):
            raise core.Unsupported("Series.map with something other than an item -> value mapping")
        f = self.fn
        # pandas gives NaN for keys that are not in the mapping; the importer has excluded those rows before
        return Col(self.rows, "int", lambda i: m.value_at(m.items._pos(f(i))), name=self.name)

    def fillna(self, v):
        f, na = self.fn, self.isna_fn
        val = to_real(v)
        return Col(self.rows, self.kind, lambda i: z3.If(na(i), val, f(i)), isna=None, name=self.name)

    def isna(self):
        return BoolCol(self.rows, self.isna_fn)

    def astype(self, t):
        return self

    @property
    def values(self):
        f = self.fn
        kind = "real" if self.kind == "real" else "int"
        return symnp.SymArr.fresh((self.rows.n,), lambda idx: f(to_int(idx[0])), kind)

    def to_numpy(self, *a, **k):
        if a or k:
            raise core.Unsupported("Series.to_numpy with options on a symbolic column")
        return self.values


class BoolCol:
    def __getattr__(self, name):
        # (only reached for attributes this row model does not have)
        if name.startswith("__"):
            raise AttributeError(name)
        raise core.Unsupported(f"pandas operation '{name}' is outside the row-level table model")

    def __init__(self, rows, fn):
        self.rows = rows
        self.fn = fn
        self._any = None

    def any(self):
        if self._any is None:
            c = ctx()
            b = c.fresh("any_row", "bool")
            w = c.fresh("w_row", "int")
            fn, rows = self.fn, self.rows
            c.assume(z3.Implies(b, z3.And(rows.in_range(w), fn(w))))
            self._any = b
            self._neg_fact = lambda i: z3.Implies(z3.And(z3.Not(b), rows.in_range(i)), z3.Not(fn(to_int(i))))
            forall_rows(self._neg_fact, fn)
        return wrap(self._any)

    def none_fact(self, i):
        """instance at row i of: not any() => not pred(i)"""
        self.any()
        return self._neg_fact(i)

    def __iter__(self):
        raise core.Unsupported("iteration over a symbolic boolean column")

    # row-wise logic of two boolean columns over the same rows (mask1 & mask2, ~mask)
    def _same_rows(self, other):
        if not isinstance(other, BoolCol) or other.rows is not self.rows:
            raise core.Unsupported("logic of boolean columns over different row sets")

    def __and__(self, other):
        if isinstance(other, bool):
            return self if other else BoolCol(self.rows, lambda i: z3.BoolVal(False))
        self._same_rows(other)
        f, g = self.fn, other.fn
        return BoolCol(self.rows, lambda i: z3.And(f(i), g(i)))

    __rand__ = __and__

    def __or__(self, other):
        if isinstance(other, bool):
            return BoolCol(self.rows, lambda i: z3.BoolVal(True)) if other else self
        self._same_rows(other)
        f, g = self.fn, other.fn
        return BoolCol(self.rows, lambda i: z3.Or(f(i), g(i)))

    __ror__ = __or__

    def __invert__(self):
        f = self.fn
        return BoolCol(self.rows, lambda i: z3.Not(f(i)))


class ColValues:
    """df[col].unique()"""

    def __init__(self, col):
        self.col = col


class ColSet:
    """set(df[col].unique())"""

    def __init__(self, col):
        self.col = col

    def __sub__(self, other):
        items = getattr(other, "items", None)
        if items is None and hasattr(other, "contains_expr"):
            items = other  # (the item list itself: set.difference accepts any iterable)
        if items is None or not hasattr(items, "contains_expr"):
            raise core.Unsupported("set difference with a non-symbolic item set")
        col = self.col
        return ExtraItems(BoolCol(col.rows, lambda i: z3.Not(items.contains_expr(col.fn(i)))))

    def difference(self, *others):
        if len(others) != 1:
            raise core.Unsupported("set.difference with several arguments on a symbolic column set")
        return self.__sub__(others[0])


class ExtraItems:
    """set of column items that are not dimension items: truthy iff some row carries an unknown item"""

    def __init__(self, boolcol):
        self.boolcol = boolcol

    def __bool__(self):
        return bool(self.boolcol.any())

    def __repr__(self):
        return "<items not in the dimension>"


class ItemPosMap:
    """{item: f(i) for i, item in enumerate(items)}"""

    def __init__(self, items, value_at):
        self.items = items
        self.value_at = value_at


class SymTable:
    def __getattr__(self, name):
        # (only reached for attributes this row model does not have)
        if name.startswith("__"):
            raise AttributeError(name)
        raise core.Unsupported(f"pandas operation '{name}' is outside the row-level table model")

    def __init__(self, rows: Rows, cols, index_cols=None):
        self.rows = rows
        self.cols = dict(cols)  # ordered
        self.index_cols = dict(index_cols or {})  # ordered; empty = default RangeIndex

    @property
    def columns(self):
        return list(self.cols)

    def __symlen__(self):
        return self.rows.n

    def __len__(self):
        raise core.Unsupported("len() of symbolic table outside shimmed module")

    def copy(self):
        return SymTable(self.rows, self.cols, self.index_cols)

    def set_index(self, index, inplace=False, **kw):
        """positional pairing of the rows with the entries of an index of the same length"""
        if kw or not isinstance(index, FakeIndex):
            raise core.Unsupported("set_index with something other than a (Multi)Index object")
        if not symnp.same_size(index.rows.n, self.rows.n):
            raise ValueError(f"Length mismatch: Expected {self.rows.n} rows, received array of length {index.rows.n}")
        rows = self.rows
        icols = {nm: Col(rows, col.kind, col.fn, isna=col.isna_fn, name=nm) for nm, col in index.cols.items()}
        if inplace:
            self.index_cols = icols
            return None
        return SymTable(rows, self.cols, icols)

    def reset_index(self, inplace=False, drop=False, **kw):
        """index levels become the leading columns (or are dropped); default index afterwards"""
        if kw:
            raise core.Unsupported(f"reset_index options {sorted(kw)}")
        cols = dict(self.cols) if drop else {**self.index_cols, **self.cols}
        if not drop and len(cols) != len(self.index_cols) + len(self.cols):
            raise ValueError("cannot insert an index level, already exists")
        if inplace:
            self.cols, self.index_cols = cols, {}
            return None
        return SymTable(self.rows, cols, {})

    def pivot(self, *a, **k):
        raise core.Unsupported("DataFrame.pivot on a symbolic table")

    def __getitem__(self, key):
        if isinstance(key, list):
            return SymTable(self.rows, {k: self.cols[k] for k in key})
        if isinstance(key, str):
            return self.cols[key]
        if isinstance(key, BoolCol):
            return self.filter(key)
        raise core.Unsupported(f"table indexing with {type(key).__name__}")

    def __setitem__(self, name, col):
        if not isinstance(col, Col) or col.rows is not self.rows:
            raise core.Unsupported("column assignment from another table")
        self.cols[name] = col

    def duplicated(self):
        return Duplicated(self)

    def filter(self, pred: BoolCol):
        c = ctx()
        k = next(_ids)
        n2 = SymInt(c.fresh(f"n_rows_f{k}", "int"))
        emb = z3.Function(f"emb{k}", z3.IntSort(), z3.IntSort())
        inv = z3.Function(f"embinv{k}", z3.IntSort(), z3.IntSort())
        parent = self.rows
        c.assume(z3.And(n2.e >= 0, n2.e <= parent.zn()))
        rows2 = Rows(n2, parent=parent, emb=emb, emb_inv=inv)
        pf = pred.fn
        c.add_trigger(f"emb{k}", lambda j: z3.Implies(z3.And(j >= 0, j < n2.e), z3.And(parent.in_range(emb(j)), pf(emb(j)), inv(emb(j)) == j)))
        # every parent row satisfying the predicate is kept: instantiated by `kept_fact`
        rows2.kept_fact = lambda i: z3.Implies(z3.And(parent.in_range(i), pf(to_int(i))), z3.And(inv(to_int(i)) >= 0, inv(to_int(i)) < n2.e, emb(inv(to_int(i))) == to_int(i)))
        cols = {}
        for nm, col in self.cols.items():
            cols[nm] = Col(rows2, col.kind, (lambda col: lambda j: col.fn(emb(to_int(j))))(col), isna=(lambda col: lambda j: col.isna_fn(emb(to_int(j))))(col), name=nm)
        return SymTable(rows2, cols)

    def to_numpy(self, *a, **k):
        if a or k:
            raise core.Unsupported("DataFrame.to_numpy with options on a symbolic table")
        return self.values

    @property
    def loc(self):
        return _RowSelector(self)

    @property
    def values(self):
        names = list(self.cols)
        cols = [self.cols[nm] for nm in names]

        def fn(idx):
            i = to_int(idx[0])
            c = idx[1]
            if isinstance(c, int):
                return to_real(cols[c].fn(i))
            cz = z3.simplify(to_int(c))
            if z3.is_int_value(cz):
                return to_real(cols[cz.as_long()].fn(i))
            e = to_real(cols[-1].fn(i))
            for q in range(len(cols) - 2, -1, -1):
                e = z3.If(cz == q, to_real(cols[q].fn(i)), e)
            return e

        return symnp.SymArr.fresh((self.rows.n, len(cols)), fn, "real")

    def itertuples(self, *a, **k):
        return Opaque("index tuples")


class _RowSelector:
    """df.loc[<boolean column>]: the rows for which it holds (what df[<boolean column>] gives)"""

    def __init__(self, table):
        self.table = table

    def __getitem__(self, key):
        if isinstance(key, BoolCol):
            return self.table.filter(key)
        raise core.Unsupported(f".loc with {type(key).__name__} on a symbolic table")


class Duplicated(BoolCol):
    """df.duplicated(): only .any() is meaningful here; any() <=> two different rows agree on all columns"""

    def __init__(self, table):
        self.table = table
        self.rows = table.rows
        self._any = None
        self.fn = None

    def any(self):
        if self._any is None:
            c = ctx()
            b = c.fresh("has_duplicates", "bool")
            i0, j0 = c.fresh("dup_i", "int"), c.fresh("dup_j", "int")
            cols = list(self.table.cols.values())
            rows = self.rows
            same = lambda i, j: z3.And(*[col.fn(i) == col.fn(j) for col in cols]) if cols else z3.BoolVal(True)
            c.assume(z3.Implies(b, z3.And(rows.in_range(i0), rows.in_range(j0), i0 != j0, same(i0, j0))))
            self._any = b
            self.distinct_fact = lambda i, j: z3.Implies(z3.And(z3.Not(b), rows.in_range(i), rows.in_range(j), to_int(i) != to_int(j)), z3.Not(same(to_int(i), to_int(j))))
            forall_row_pairs(self.distinct_fact, lambda i: same(i, i))
        return wrap(self._any)


class SymEnumerate:
    def __init__(self, items):
        self.items = items


def sh_enumerate(it, start=0):
    if hasattr(it, "contains_expr") and isinstance(getattr(it, "n", None), SymInt):
        if start != 0:
            raise core.Unsupported("enumerate(start != 0) over a symbolic item list")
        return SymEnumerate(it)
    return enumerate(it, start)


def fvc_dictcomp(f, it, nargs=1):
    """{k: v for (targets) in it}  -- helper called by rewritten functions; f(*targets) -> (k, v)"""
    if isinstance(it, SymEnumerate):
        from .world import Item

        c = ctx()
        J = c.fresh("J", "int")
        items = it.items
        k, v = f(wrap(J), Item(items.at_expr(J)))
        if not (isinstance(k, Item) and z3.eq(k.e, items.at_expr(J))):
            raise core.Unsupported("dict comprehension over enumerate(items) whose keys are not the items")
        vexpr = to_int(v)
        return ItemPosMap(items, lambda j: z3.substitute(vexpr, (J, to_int(j))))
    out = {}
    for x in it:
        k, v = f(*x) if nargs > 1 else f(x)
        out[k] = v
    return out


def sh_any(x):
    if isinstance(x, BoolCol):
        return x.any()
    import builtins

    return builtins.any(x)


class FakeItertools:
    def product(self, *a, **k):
        if any(hasattr(x, "contains_expr") for x in a):
            return Opaque("all label combinations")
        if a and not k and any(isinstance(x, symnp.SymRange) for x in a):
            # itertools.product(range(n0), range(n1), ...) = np.ndindex(n0, n1, ...): the same index tuples in the
            # same order (the pending loop contract cuts the loop over them)
            if all((isinstance(x, symnp.SymRange) and isinstance(x.lo, int) and x.lo == 0) or (isinstance(x, range) and x.start == 0 and x.step == 1) for x in a):
                return symnp.sym_ndindex(*[(x.hi if isinstance(x, symnp.SymRange) else len(x)) for x in a], _depth=2)
            raise core.Unsupported("itertools.product over ranges that do not start at 0")
        return itertools.product(*a, **k)

    def __getattr__(self, name):
        return getattr(itertools, name)


class FakeIndex:
    def __getattr__(self, name):
        # (only reached for attributes this row model does not have)
        if name.startswith("__"):
            raise AttributeError(name)
        raise core.Unsupported(f"pandas operation '{name}' is outside the row-level table model")

    """a pandas (Multi)Index: named levels over a row set"""

    def __init__(self, rows, cols):
        self.rows = rows
        self.cols = dict(cols)

    @property
    def names(self):
        return list(self.cols)


class _FakeMultiIndex:
    @staticmethod
    def from_product(iterables, names=None, **kw):
        """all combinations of the given item lists in C order (last list varies fastest)"""
        if kw:
            raise core.Unsupported(f"MultiIndex.from_product options {sorted(kw)}")
        lists = list(iterables)
        names = list(names) if names is not None else [None] * len(lists)
        if len(names) != len(lists):
            raise ValueError("Length of names must match number of levels in MultiIndex.")
        if not lists:
            raise ValueError("Must pass non-zero number of levels/codes")
        for l in lists:
            if not hasattr(l, "at_expr"):
                raise core.Unsupported("MultiIndex.from_product over something other than item lists")
        co = symnp.corder_of([l.n for l in lists])
        rows = Rows(co.N)
        cols = {}
        for d, (nm, l) in enumerate(zip(names, lists)):
            if nm in cols:
                raise core.Unsupported("duplicate level names")
            cols[nm] = Col(rows, "item", (lambda d, l: lambda r: l.at_expr(co.dec_expr(d, r)))(d, l), name=nm)
        return FakeIndex(rows, cols)

    @staticmethod
    def from_arrays(arrays, names=None, **kw):
        """level d of entry r is arrays[d][r]"""
        if kw:
            raise core.Unsupported(f"MultiIndex.from_arrays options {sorted(kw)}")
        arrays = list(arrays)
        names = list(names) if names is not None else [None] * len(arrays)
        if len(names) != len(arrays):
            raise ValueError("Length of names must match number of levels in MultiIndex.")
        if not arrays:
            raise ValueError("Must pass non-zero number of levels/codes")
        for a in arrays:
            if not isinstance(a, symnp.SymArr) or a.ndim != 1:
                raise core.Unsupported("MultiIndex.from_arrays over something other than 1-d symbolic arrays")
        n = arrays[0].shape[0]
        for a in arrays[1:]:
            if not symnp.same_size(a.shape[0], n):
                raise ValueError("all arrays must be same length")
        rows = Rows(n)
        cols = {}
        for nm, a in zip(names, arrays):
            fz = a.frozen()
            cols[nm] = Col(rows, "item", (lambda fz: lambda r: fz((to_int(r),)))(fz), name=nm)
        return FakeIndex(rows, cols)


class FakePandas:
    """stands in for the name `pd` inside FlodymArray.to_df: the five pandas operations of the long-format export
    are row-level contracts (assumed); everything else is the real pandas"""

    MultiIndex = _FakeMultiIndex

    @staticmethod
    def DataFrame(data=None, **kw):
        if kw or not isinstance(data, dict):
            raise core.Unsupported("DataFrame(...) from something other than a dict of columns")
        rows = None
        cols = {}
        for nm, a in data.items():
            if not isinstance(a, symnp.SymArr) or a.ndim != 1:
                raise core.Unsupported("DataFrame column that is not a 1-d symbolic array")
            if rows is None:
                rows = Rows(a.shape[0])
            elif not symnp.same_size(a.shape[0], rows.n):
                raise ValueError("All arrays must be of the same length")
            fz = a.frozen()
            cols[nm] = Col(rows, "real" if a.kind == "real" else "int", (lambda fz: lambda r: fz((to_int(r),)))(fz), name=nm)
        if rows is None:
            raise core.Unsupported("empty DataFrame")
        return SymTable(rows, cols)

    def __getattr__(self, name):
        import pandas

        return getattr(pandas, name)
