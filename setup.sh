#!/bin/bash
# builds the overlay venv: python 3.12 of /venv + z3/cvc5 wheels from the offline wheelhouse
set -e
HERE="$(cd "$(dirname "$0")" && pwd)"
cd "$HERE"
if [ -x .venv/bin/python ] && .venv/bin/python -c "import z3, flodym" 2>/dev/null; then exit 0; fi
rm -rf .venv
/venv/bin/python -m venv .venv
PIP_NO_INDEX=1 .venv/bin/python -m pip install -q --no-index --find-links /opt/veriftools/wheels z3-solver jsonschema
echo "import site; site.addsitedir('/venv/lib/python3.12/site-packages')" > .venv/lib/python3.12/site-packages/_repo_overlay.pth
.venv/bin/python -c "import z3, flodym, numpy, pydantic; print('overlay venv ok', z3.get_version_string())"
