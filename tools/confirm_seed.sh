#!/bin/bash
# usage: confirm_seed.sh <seed-id> <worktree> ; confirms a sub-agent's seeded change and stores it under /verif/seeded/<id>
id=$1; wt=$2
set -u
cd "$wt" || exit 9
git diff -- flodym > /tmp/confirm_$id.diff
if ! [ -s /tmp/confirm_$id.diff ]; then git apply patch.diff || exit 8; git diff -- flodym > /tmp/confirm_$id.diff; fi
t=$(PYTHONPATH=$wt /venv/bin/python -m pytest -q -p no:cacheprovider tests 2>&1 | tail -1)
PYTHONPATH=$wt /venv/bin/python demo.py > /tmp/confirm_$id.with 2>&1; rc_with=$?
git stash -q -- flodym
PYTHONPATH=$wt /venv/bin/python demo.py > /tmp/confirm_$id.without 2>&1; rc_without=$?
git stash pop -q
echo "$id tests_with_patch='$t' demo_with_patch_rc=$rc_with demo_without_patch_rc=$rc_without"
mkdir -p /verif/seeded/$id
cp /tmp/confirm_$id.diff /verif/seeded/$id/patch.diff
cp demo.py /verif/seeded/$id/demo.py
/venv/bin/python - "$id" "$t" "$rc_with" "$rc_without" <<'PY'
import json,sys
id,t,a,b=sys.argv[1:5]
try: m=json.load(open('meta.json'))
except Exception as e: m={'error':str(e)}
m['confirmed_by_main_session']={'tests_with_patch':t,'demo_rc_with_patch':int(a),'demo_rc_without_patch':int(b),
  'commands':['PYTHONPATH=<wt> /venv/bin/python -m pytest -q -p no:cacheprovider tests','PYTHONPATH=<wt> /venv/bin/python demo.py (with and without patch)']}
json.dump(m,open(f'/verif/seeded/{id}/meta.json','w'),indent=1)
PY
