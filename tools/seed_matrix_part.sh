#!/bin/bash
# usage: seed_matrix_part.sh <grep-pattern>  -- re-runs the seeds whose id matches and replaces their lines in seeded/RESULTS.txt
cd /verif
out=/verif/seeded/RESULTS.txt
for id in $(ls seeded | grep '^C' | grep -E "$1"); do
  prop=${id%%_*}
  if git -C /repo apply --check /verif/seeded/$id/patch.diff 2>/dev/null; then
    tools/try_seed.sh $id $prop quick > /tmp/sm_$id.txt 2>&1
    v=$(grep -c '^VIOLATION' /tmp/try_${id}_${prop}.out); nf=$(grep -c 'no-failing-input-found' /tmp/try_${id}_${prop}.out)
    rc=$(head -1 /tmp/sm_$id.txt | sed 's/.*rc=\([0-9]*\).*/\1/')
    first=$(grep '^VIOLATION' /tmp/try_${id}_${prop}.out | head -2 | sed 's/.*replays\///' | tr '\n' ' ')
    line="$id on HEAD: check $prop exit=$rc violations=$v (without failing input: $nf) e.g. $first"
  else
    tools/try_seed_base.sh $id $prop 8334027 > /tmp/sm_$id.txt 2>&1
    line="$id on its base 8334027 (does not apply after the fix commits): $(grep 'base violations' /tmp/sm_$id.txt); new: $(grep '^VIOLATION' /tmp/sm_$id.txt | head -2 | sed 's/VIOLATION property=[A-Z0-9]* //' | tr '\n' ' ')"
  fi
  grep -v "^$id on " $out > $out.tmp; echo "$line" >> $out.tmp; sort -V $out.tmp > $out; rm -f $out.tmp
  echo "$line" | cut -c1-120
done
