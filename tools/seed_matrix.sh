#!/bin/bash
# runs every seeded change against the check of the property it targets; writes /verif/seeded/RESULTS.txt
cd /verif
out=/verif/seeded/RESULTS.txt
: > $out
for id in $(ls seeded | grep '^C'); do
  prop=${id%%_*}
  if git -C /repo apply --check /verif/seeded/$id/patch.diff 2>/dev/null; then
    tools/try_seed.sh $id $prop quick > /tmp/sm_$id.txt 2>&1
    v=$(grep -c '^VIOLATION' /tmp/try_${id}_${prop}.out); nf=$(grep -c 'no-failing-input-found' /tmp/try_${id}_${prop}.out)
    rc=$(head -1 /tmp/sm_$id.txt | sed 's/.*rc=\([0-9]*\).*/\1/')
    first=$(grep '^VIOLATION' /tmp/try_${id}_${prop}.out | head -2 | sed 's/.*replays\///' | tr '\n' ' ')
    echo "$id on HEAD: check $prop exit=$rc violations=$v (without failing input: $nf) e.g. $first" >> $out
  else
    tools/try_seed_base.sh $id $prop 8334027 > /tmp/sm_$id.txt 2>&1
    echo "$id on its base 8334027 (does not apply after the fix commits): $(grep 'base violations' /tmp/sm_$id.txt); new: $(grep '^VIOLATION' /tmp/sm_$id.txt | head -2 | sed 's/VIOLATION property=[A-Z0-9]* //' | tr '\n' ' ')" >> $out
  fi
done
cat $out
