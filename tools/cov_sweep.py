"""Statement / branch coverage of /repo/flodym by the concrete contract evaluations of all units (a sample of up to 40
skeletons per unit, four seeds): which code the contracts never reach.  Output: /tmp/fvc_cov/report.txt.
usage: cd /verif && .venv/bin/python tools/cov_sweep.py"""
import sys, json, os
os.makedirs("/tmp/fvc_cov", exist_ok=True)
sys.path.insert(0, "/verif"); sys.path.insert(1, "/repo")
import coverage
cov = coverage.Coverage(source=["/repo/flodym"], data_file="/tmp/fvc_cov/.coverage", branch=True)
cov.start()
from fvc import units, runner
units.load_all()
n=0
for u in units.UNITS.values():
    if u.expect == "refuted":
        continue
    sks = list(u.skeletons("quick"))
    # sample: at most 40 skeletons per unit, evenly spread
    step = max(1, len(sks)//40)
    for sk in sks[::step]:
        for s in (0, 1, 4, 5):
            try:
                runner.run_concrete(u, sk, seed=s)
            except Exception as e:
                pass
            n+=1
cov.stop(); cov.save()
print("runs", n)
cov.report(show_missing=True, skip_covered=False, file=open("/tmp/fvc_cov/report.txt","w"))
