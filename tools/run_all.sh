#!/bin/bash
# runs every claimed quick (or $1=thorough) check; prints one line per property
tier=${1:-quick}
cd /verif
for p in $(python3 -c "import json; print(' '.join(c['property_id'] for c in json.load(open('MANIFEST.json'))['checks']))"); do
  s=$(date +%s); ./check $p --tier $tier > /tmp/runall_$p.out 2>&1; rc=$?; e=$(date +%s)
  echo "$p rc=$rc $((e-s))s $(tail -1 /tmp/runall_$p.out | cut -c1-160)"
done
