#!/bin/bash
# usage: try_seed.sh <seed-id> <prop> [tier]  -- applies /verif/seeded/<id>/patch.diff to /repo, runs the check, reverts
id=$1; prop=$2; tier=${3:-quick}
cd /repo || exit 9
if ! git diff --quiet; then echo "repo dirty"; exit 9; fi
git apply /verif/seeded/$id/patch.diff || { echo "patch does not apply"; exit 8; }
cd /verif && FVC_EVIDENCE_DIR=/tmp/seed_evidence ./check $prop --tier $tier > /tmp/try_${id}_${prop}.out 2>&1; rc=$?
git -C /repo checkout -- .
grep -c '^VIOLATION' /tmp/try_${id}_${prop}.out | sed "s/^/seed=$id prop=$prop rc=$rc violations=/"
tail -1 /tmp/try_${id}_${prop}.out
