#!/bin/bash
# usage: try_seed_base.sh <seed-id> <prop> <base-commit>  -- like try_seed.sh but on the flodym sources of <base-commit>;
# prints the obligations violated with the patch that are not violated on the bare base
id=$1; prop=$2; base=$3
cd /repo || exit 9
if ! git diff --quiet; then echo "repo dirty"; exit 9; fi
git checkout -q $base -- flodym
(cd /verif && FVC_EVIDENCE_DIR=/tmp/seed_evidence ./check $prop > /tmp/tsb_base.out 2>&1)
git apply /verif/seeded/$id/patch.diff || { echo "patch does not apply"; git checkout -q HEAD -- flodym; exit 8; }
(cd /verif && FVC_EVIDENCE_DIR=/tmp/seed_evidence ./check $prop > /tmp/tsb_patch.out 2>&1)
git reset -q HEAD -- flodym; git checkout -q HEAD -- flodym
grep '^VIOLATION' /tmp/tsb_base.out | sed 's/ replay=.*replays\// /' | sort > /tmp/tsb_base.v
grep '^VIOLATION' /tmp/tsb_patch.out | sed 's/ replay=.*replays\// /' | sort > /tmp/tsb_patch.v
echo "base violations: $(wc -l < /tmp/tsb_base.v); with patch: $(wc -l < /tmp/tsb_patch.v); new with patch:"
comm -13 /tmp/tsb_base.v /tmp/tsb_patch.v
tail -1 /tmp/tsb_patch.out
